import TunnoxModel.Proofs.C14List
/-!
C14 — freshness of the repaired facade: for every set of concurrent get/exists/set/delete calls on one
key, every schedule and every placement of persistent-tier failures, every read is explained by a write
that is not older than a write which had returned before the read started.

Ghost versions: every commit (the `persistent.Set`/`persistent.Delete`, or the only cache write when no
persistent tier takes part) gets the next number `nver`; cells carry the number of the commit their
content stems from; a read records the number it returned (`rver`), a write its own (`cver`).

Invariant (`FInv`): the committing tier always holds the latest version; while the key lock is free the
cache tier is empty or holds the latest version; inside `Set` (after the commit, before the cache write)
it holds at most the previous version, whose successor's writer has not returned; plus the time/version
facts that turn "returned version ≥ every version committed by a call that had returned" into `holdsFresh`.
-/
namespace Tunnox.C14

def isKVop (o : Op) : Prop := o = .get ∨ o = .ex ∨ (∃ v t, o = .set v t) ∨ o = .del

def isW (o : Op) : Prop := (∃ v t, o = .set v t) ∨ o = .del

/-- The content a mutator installs. -/
def wval : Op → Option Val
  | .set v _ => some v
  | _ => none

/-- What a read call returns for the content it saw. -/
def resOf : Op → Option Val → Res
  | .ex, v => .bool v.isSome
  | _, some x => .val x
  | _, none => .nf

/-- The cell of the committing tier. -/
def curCell (R : Route) (σ : St) : Cell := if R.pe then σ.p else σ.cell R.ck

/-- `v` is the content of version `m`: the initial content, or what the owner of `m` wrote. -/
def VV (ths : List Thread) (init : Option Val) (m : Nat) (v : Option Val) : Prop :=
  (m = 0 ∧ v = init) ∨ ∃ (i : Nat) (t : Thread), ths[i]? = some t ∧ t.cver = some m ∧ v = wval t.op

/-- Program points inside the critical section (the lock is held between steps). -/
def inCS (pc : PC) : Prop :=
  match pc with
  | .wb _ _ | .writeC _ _ _ | .delP _ => True
  | _ => False

def timeOK (now : Nat) (t : Thread) : Prop :=
  (∀ a, t.inv = some a → 1 ≤ a ∧ a < now) ∧ (∀ b, t.ret = some b → b < now) ∧
  (∀ a, t.inv = some a → ∃ b, t.ret = some b ∧ a ≤ b)

def kvFacts (R : Route) (σ : St) (t : Thread) : Prop :=
  match t.pc with
  | .start => t.cver = none ∧ t.rver = none ∧ t.res = none ∧ t.inv = none ∧ t.ret = none
  | .readP => t.op = .get ∧ R.pe = true ∧ t.cver = none ∧ t.rver = none ∧ t.res = none ∧ t.inv.isSome = true
  | .exP => t.op = .ex ∧ R.pe = true ∧ t.cver = none ∧ t.rver = none ∧ t.res = none ∧ t.inv.isSome = true
  | .wb v ver => t.op = .get ∧ R.pe = true ∧ ver = σ.nver ∧ σ.p.val = some v ∧
      ((σ.cell R.ck).val = none ∨ (σ.cell R.ck).ver = σ.nver) ∧
      t.cver = none ∧ t.rver = none ∧ t.res = none ∧ t.inv.isSome = true
  | .writeC v _ ver => (∃ tt, t.op = .set v tt) ∧ R.pe = true ∧ ver = σ.nver ∧ t.cver = some σ.nver ∧
      ((σ.cell R.ck).val = none ∨ (σ.cell R.ck).ver + 1 = σ.nver) ∧
      t.rver = none ∧ t.res = none ∧ t.inv.isSome = true
  | .delP cerr => t.op = .del ∧ R.pe = true ∧ cerr = false ∧ (σ.cell R.ck).val = none ∧
      t.cver = none ∧ t.rver = none ∧ t.res = none ∧ t.inv.isSome = true
  | .done => t.res.isSome = true ∧ t.inv.isSome = true ∧ t.ret.isSome = true ∧
      (t.res = some .ok → t.cver.isSome = true) ∧ (t.rver = none → isW t.op ∨ t.res = some .err) ∧
      (t.cver.isSome = true → t.res = some .ok)
  | _ => False

/-- Freshness of a recorded read w.r.t. a returned write. -/
def PFresh (r w : Thread) : Prop :=
  ∀ m a b n, r.rver = some m → r.inv = some a → w.res = some .ok → w.ret = some b → w.cver = some n →
    b < a → n ≤ m

/-- The owner of the version a read returned had started when the read returned. -/
def POwner (r w : Thread) : Prop :=
  ∀ m a b, r.rver = some m → w.cver = some m → w.inv = some a → r.ret = some b → a ≤ b

/-- Real-time order of writes is reflected in their versions. -/
def POrder (w w' : Thread) : Prop :=
  ∀ n n' b a, w.res = some .ok → w.ret = some b → w.cver = some n → w'.cver = some n' → w'.inv = some a →
    b < a → n < n'

structure FInv (R : Route) (init : Option Val) (cfg : Cfg) : Prop where
  kinds : ∀ (i : Nat) (t : Thread), cfg.threads[i]? = some t → isKVop t.op
  time : ∀ (i : Nat) (t : Thread), cfg.threads[i]? = some t → timeOK cfg.now t
  facts : ∀ (i : Nat) (t : Thread), cfg.threads[i]? = some t → kvFacts R cfg.st t
  holder : ∀ (i : Nat) (t : Thread), cfg.threads[i]? = some t → inCS t.pc → cfg.st.lock = some i
  owned : ∀ i, cfg.st.lock = some i → ∃ t, cfg.threads[i]? = some t ∧ inCS t.pc
  coh : R.pe = true → cfg.st.lock = none →
    (cfg.st.cell R.ck).val = none ∨ (cfg.st.cell R.ck).ver = cfg.st.nver
  curver : (curCell R cfg.st).ver = cfg.st.nver
  curval : VV cfg.threads init cfg.st.nver (curCell R cfg.st).val
  ckval : R.pe = true → ∀ v, (cfg.st.cell R.ck).val = some v →
    VV cfg.threads init (cfg.st.cell R.ck).ver (some v) ∧ (cfg.st.cell R.ck).ver ≤ cfg.st.nver
  cvr : ∀ (i : Nat) (t : Thread), cfg.threads[i]? = some t → ∀ n, t.cver = some n →
    1 ≤ n ∧ n ≤ cfg.st.nver ∧ isW t.op
  inj : ∀ (i j : Nat) (t u : Thread) (n : Nat), cfg.threads[i]? = some t → cfg.threads[j]? = some u →
    t.cver = some n → u.cver = some n → i = j
  rd : ∀ (i : Nat) (r : Thread), cfg.threads[i]? = some r → ∀ m, r.rver = some m →
    m ≤ cfg.st.nver ∧ ∃ v, VV cfg.threads init m v ∧ r.res = some (resOf r.op v) ∧ (r.op = .get ∨ r.op = .ex)
  fresh : ∀ (i j : Nat) (r w : Thread), cfg.threads[i]? = some r → cfg.threads[j]? = some w → PFresh r w
  owner : ∀ (i j : Nat) (r w : Thread), cfg.threads[i]? = some r → cfg.threads[j]? = some w → POwner r w
  order : ∀ (i j : Nat) (w w' : Thread), cfg.threads[i]? = some w → cfg.threads[j]? = some w' → POrder w w'

/-! ### Generic update lemmas -/

theorem pair_update {P : Thread → Thread → Prop} {ths : List Thread} {i : Nat} {th' : Thread}
    (hi : i < ths.length)
    (hold : ∀ (a b : Nat) (t u : Thread), ths[a]? = some t → ths[b]? = some u → P t u)
    (hl : ∀ (b : Nat) (u : Thread), ths[b]? = some u → b ≠ i → P th' u)
    (hr : ∀ (a : Nat) (t : Thread), ths[a]? = some t → a ≠ i → P t th')
    (hd : P th' th') :
    ∀ (a b : Nat) (t u : Thread), (ths.set i th' ++ ([] : List Thread))[a]? = some t →
      (ths.set i th' ++ ([] : List Thread))[b]? = some u → P t u := by
  intro a b t u ha hb
  rw [getElem?_set_nil' _ _ _ _ hi] at ha hb
  by_cases hai : i = a
  · by_cases hbi : i = b
    · rw [if_pos hai] at ha; rw [if_pos hbi] at hb
      cases ha; cases hb; exact hd
    · rw [if_pos hai] at ha; rw [if_neg hbi] at hb
      cases ha
      exact hl b u hb (fun h => hbi h.symm)
  · by_cases hbi : i = b
    · rw [if_neg hai] at ha; rw [if_pos hbi] at hb
      cases hb
      exact hr a t ha (fun h => hai h.symm)
    · rw [if_neg hai] at ha; rw [if_neg hbi] at hb
      exact hold a b t u ha hb

theorem single_update {P : Thread → Prop} {ths : List Thread} {i : Nat} {th' : Thread}
    (hi : i < ths.length)
    (hold : ∀ (a : Nat) (t : Thread), ths[a]? = some t → a ≠ i → P t) (hd : P th') :
    ∀ (a : Nat) (t : Thread), (ths.set i th' ++ ([] : List Thread))[a]? = some t → P t := by
  intro a t ha
  rw [getElem?_set_nil' _ _ _ _ hi] at ha
  by_cases hai : i = a
  · rw [if_pos hai] at ha; cases ha; exact hd
  · rw [if_neg hai] at ha; exact hold a t ha (fun h => hai h.symm)

/-- Versions keep their content when the thread that moves keeps (or newly gets) its commit number. -/
theorem VV_mono {ths : List Thread} {init : Option Val} {i : Nat} {th th' : Thread}
    (hth : ths[i]? = some th) (hop : th'.op = th.op)
    (hcv : th'.cver = th.cver ∨ th.cver = none) {m : Nat} {v : Option Val} (h : VV ths init m v) :
    VV (ths.set i th' ++ []) init m v := by
  have hi := lt_of_getElem? hth
  rcases h with h | ⟨j, t, hj, hc, hv⟩
  · exact Or.inl h
  · right
    by_cases hji : i = j
    · subst hji
      rw [hth] at hj; cases hj
      rcases hcv with hcv | hcv
      · exact ⟨i, th', by rw [getElem?_set_nil' _ _ _ _ hi]; simp, by rw [hcv]; exact hc, by rw [hop]; exact hv⟩
      · rw [hcv] at hc; cases hc
    · exact ⟨j, t, by rw [getElem?_set_nil' _ _ _ _ hi]; simp [hji, hj], hc, hv⟩

theorem timeOK_mono {now : Nat} {t : Thread} (h : timeOK now t) : timeOK (now + 1) t := by
  obtain ⟨h1, h2, h3⟩ := h
  exact ⟨fun a ha => ⟨(h1 a ha).1, Nat.lt_succ_of_lt (h1 a ha).2⟩, fun b hb => Nat.lt_succ_of_lt (h2 b hb), h3⟩

/-- The stepping thread's new time stamps are consistent. -/
theorem timeOK_step {now : Nat} {t : Thread} (h : timeOK now t) (hnow : 1 ≤ now) {t' : Thread}
    (hinv : t'.inv = some (t.inv.getD now)) (hret : t'.ret = some now) : timeOK (now + 1) t' := by
  obtain ⟨h1, h2, h3⟩ := h
  refine ⟨?_, ?_, ?_⟩
  · intro a ha
    rw [hinv] at ha
    cases hti : t.inv with
    | none => simp [hti] at ha; subst ha; exact ⟨hnow, Nat.lt_succ_self _⟩
    | some a0 =>
      simp [hti] at ha; subst ha
      exact ⟨(h1 a0 hti).1, Nat.lt_succ_of_lt (h1 a0 hti).2⟩
  · intro b hb; rw [hret] at hb; cases hb; exact Nat.lt_succ_self _
  · intro a ha
    refine ⟨now, hret, ?_⟩
    rw [hinv] at ha
    cases hti : t.inv with
    | none => simp [hti] at ha; subst ha; exact Nat.le_refl _
    | some a0 => simp [hti] at ha; subst ha; exact Nat.le_of_lt (h1 a0 hti).2


theorem resOf_ne_ok (o : Op) (v : Option Val) : resOf o v ≠ .ok := by
  cases o <;> cases v <;> simp [resOf]

theorem kvFacts_frame {R : Route} {σ σ' : St} {t : Thread} (h : kvFacts R σ t) (hn : ¬ inCS t.pc) :
    kvFacts R σ' t := by
  unfold kvFacts at *
  unfold inCS at hn
  cases hpc : t.pc <;> simp_all

/-- What one step of thread `i` establishes; the hypotheses of `finv_update`. -/
structure KStep (R : Route) (init : Option Val) (cfg : Cfg) (i : Nat) (th : Thread) (σ' : St) (th' : Thread) :
    Prop where
  op : th'.op = th.op
  tinv : th'.inv = some (th.inv.getD cfg.now)
  tret : th'.ret = some cfg.now
  old : th.rver = none ∧ th.res = none
  cinv : th.cver.isSome = true → th.inv.isSome = true
  ver : (σ'.nver = cfg.st.nver ∧ th'.cver = th.cver ∧ (curCell R σ').val = (curCell R cfg.st).val ∧
          (curCell R σ').ver = σ'.nver) ∨
        (σ'.nver = cfg.st.nver + 1 ∧ th.cver = none ∧ th'.cver = some (cfg.st.nver + 1) ∧ isW th.op ∧
          (curCell R σ').val = wval th.op ∧ (curCell R σ').ver = σ'.nver)
  rd : th'.rver = none ∨ ∃ m v, th'.rver = some m ∧ m ≤ σ'.nver ∧ VV cfg.threads init m v ∧
        th'.res = some (resOf th.op v) ∧ (th.op = .get ∨ th.op = .ex) ∧ th'.cver = none ∧
        (∀ (j : Nat) (w : Thread) (n : Nat), cfg.threads[j]? = some w → j ≠ i → w.res = some .ok →
          w.cver = some n → n ≤ m)
  lock : (inCS th'.pc ∧ σ'.lock = some i ∧
            (∀ (j : Nat) (t : Thread), j ≠ i → cfg.threads[j]? = some t → ¬ inCS t.pc)) ∨
         (¬ inCS th'.pc ∧ σ'.lock = none ∧
            (∀ (j : Nat) (t : Thread), j ≠ i → cfg.threads[j]? = some t → ¬ inCS t.pc) ∧
            (R.pe = true → (σ'.cell R.ck).val = none ∨ (σ'.cell R.ck).ver = σ'.nver)) ∨
         (¬ inCS th'.pc ∧ ¬ inCS th.pc ∧ σ' = cfg.st)
  ck : R.pe = true → ∀ v, (σ'.cell R.ck).val = some v →
        (σ'.cell R.ck = cfg.st.cell R.ck) ∨
        (VV cfg.threads init (σ'.cell R.ck).ver (some v) ∧ (σ'.cell R.ck).ver ≤ σ'.nver)
  facts : kvFacts R σ' th'

theorem finv_update {R : Route} {init : Option Val} {cfg : Cfg} (h : FInv R init cfg) (hnow : 1 ≤ cfg.now)
    {i : Nat} {th th' : Thread} {σ' : St} {tr' : List Ev}
    (hth : cfg.threads[i]? = some th) (k : KStep R init cfg i th σ' th') :
    FInv R init { st := σ', threads := cfg.threads.set i th' ++ [], now := cfg.now + 1, trace := tr' } := by
  have hi := lt_of_getElem? hth
  have hN : cfg.st.nver ≤ σ'.nver := by
    rcases k.ver with ⟨h1, _⟩ | ⟨h1, _⟩ <;> omega
  have hcv : th'.cver = th.cver ∨ th.cver = none := by
    rcases k.ver with ⟨_, h1, _⟩ | ⟨_, h1, _⟩
    · exact Or.inl h1
    · exact Or.inr h1
  have hVV : ∀ {m : Nat} {v : Option Val}, VV cfg.threads init m v → VV (cfg.threads.set i th' ++ []) init m v :=
    fun hv => VV_mono hth k.op hcv hv
  have hget : ∀ (j : Nat), (cfg.threads.set i th' ++ ([] : List Thread))[j]? =
      if i = j then some th' else cfg.threads[j]? := fun j => getElem?_set_nil' _ _ _ _ hi
  have htime' : timeOK (cfg.now + 1) th' := timeOK_step (h.time i th hth) hnow k.tinv k.tret
  have hinvlt : ∀ (j : Nat) (u : Thread) (a : Nat), cfg.threads[j]? = some u → u.inv = some a → a < cfg.now :=
    fun j u a hu ha => ((h.time j u hu).1 a ha).2
  -- the new thread's inv when it already had a commit number
  have hinv_same : th.cver.isSome = true → th'.inv = th.inv := by
    intro hc
    have := k.cinv hc
    rw [k.tinv]
    cases hti : th.inv with
    | none => rw [hti] at this; cases this
    | some a => rfl
  constructor
  · -- kinds
    exact single_update hi (fun a t ha _ => h.kinds a t ha) (by rw [k.op]; exact h.kinds i th hth)
  · -- time
    exact single_update hi (fun a t ha _ => timeOK_mono (h.time a t ha)) htime'
  · -- facts
    refine single_update hi ?_ k.facts
    intro a t ha hai
    rcases k.lock with ⟨_, _, hoth⟩ | ⟨_, _, hoth, _⟩ | ⟨_, _, hσ⟩
    · exact kvFacts_frame (h.facts a t ha) (hoth a t hai ha)
    · exact kvFacts_frame (h.facts a t ha) (hoth a t hai ha)
    · show kvFacts R σ' t; rw [hσ]; exact h.facts a t ha
  · -- holder
    intro a t ha hcs
    show σ'.lock = some a
    rw [hget] at ha
    by_cases hai : i = a
    · rw [if_pos hai] at ha; cases ha
      rcases k.lock with ⟨_, hl, _⟩ | ⟨hn, _⟩ | ⟨hn, _⟩
      · rw [hl, hai]
      · exact absurd hcs hn
      · exact absurd hcs hn
    · rw [if_neg hai] at ha
      rcases k.lock with ⟨_, _, hoth⟩ | ⟨_, _, hoth, _⟩ | ⟨_, _, hσ⟩
      · exact absurd hcs (hoth a t (fun h => hai h.symm) ha)
      · exact absurd hcs (hoth a t (fun h => hai h.symm) ha)
      · rw [hσ]; exact h.holder a t ha hcs
  · -- owned
    intro a ha
    have ha' : σ'.lock = some a := ha
    rcases k.lock with ⟨hcs, hl, _⟩ | ⟨_, hl, _⟩ | ⟨_, hnold, hσ⟩
    · rw [hl] at ha'; cases ha'
      exact ⟨th', by rw [hget]; simp, hcs⟩
    · rw [hl] at ha'; cases ha'
    · rw [hσ] at ha'
      obtain ⟨t, ht, hcs⟩ := h.owned a ha'
      have hai : i ≠ a := by
        intro hia; subst hia
        rw [hth] at ht; cases ht
        exact hnold hcs
      exact ⟨t, by rw [hget]; simp [hai, ht], hcs⟩
  · -- coh
    intro hpe hl
    have hl' : σ'.lock = none := hl
    show (σ'.cell R.ck).val = none ∨ (σ'.cell R.ck).ver = σ'.nver
    rcases k.lock with ⟨_, hl2, _⟩ | ⟨_, _, _, hc⟩ | ⟨_, _, hσ⟩
    · rw [hl2] at hl'; cases hl'
    · exact hc hpe
    · rw [hσ]; rw [hσ] at hl'; exact h.coh hpe hl'
  · -- curver
    show (curCell R σ').ver = σ'.nver
    rcases k.ver with ⟨_, _, _, h4⟩ | ⟨_, _, _, _, _, h6⟩
    · exact h4
    · exact h6
  · -- curval
    show VV _ init σ'.nver (curCell R σ').val
    rcases k.ver with ⟨h1, _, h3, _⟩ | ⟨h1, _, h3, _, h5, _⟩
    · rw [h1, h3]; exact hVV h.curval
    · right
      exact ⟨i, th', by rw [hget]; simp, by rw [h3, h1], by rw [h5, k.op]⟩
  · -- ckval
    intro hpe v hv
    have hv' : (σ'.cell R.ck).val = some v := hv
    show VV _ init (σ'.cell R.ck).ver (some v) ∧ (σ'.cell R.ck).ver ≤ σ'.nver
    rcases k.ck hpe v hv' with heq | ⟨h1, h2⟩
    · rw [heq] at hv' ⊢
      obtain ⟨h1, h2⟩ := h.ckval hpe v hv'
      exact ⟨hVV h1, Nat.le_trans h2 hN⟩
    · exact ⟨hVV h1, h2⟩
  · -- cvr
    refine single_update hi ?_ ?_
    · intro a t ha _ n hn
      obtain ⟨h1, h2, h3⟩ := h.cvr a t ha n hn
      exact ⟨h1, Nat.le_trans h2 hN, h3⟩
    · intro n hn
      rcases k.ver with ⟨h1, h2, _⟩ | ⟨h1, _, h3, h4, _⟩
      · rw [h2] at hn
        obtain ⟨g1, g2, g3⟩ := h.cvr i th hth n hn
        exact ⟨g1, by show n ≤ σ'.nver; omega, by rw [k.op]; exact g3⟩
      · rw [h3] at hn; cases hn
        exact ⟨by omega, by show cfg.st.nver + 1 ≤ σ'.nver; omega, by rw [k.op]; exact h4⟩
  · -- inj
    intro a b t u n ha hb hta hub
    rw [hget] at ha hb
    by_cases hai : i = a
    · by_cases hbi : i = b
      · rw [← hai, ← hbi]
      · rw [if_pos hai] at ha; rw [if_neg hbi] at hb; cases ha
        exfalso
        rcases k.ver with ⟨_, h2, _⟩ | ⟨_, _, h3, _⟩
        · rw [h2] at hta
          exact hbi (h.inj i b th u n hth hb hta hub)
        · rw [h3] at hta; cases hta
          have := (h.cvr b u hb _ hub).2.1
          omega
    · by_cases hbi : i = b
      · rw [if_neg hai] at ha; rw [if_pos hbi] at hb; cases hb
        exfalso
        rcases k.ver with ⟨_, h2, _⟩ | ⟨_, _, h3, _⟩
        · rw [h2] at hub
          exact hai (h.inj a i t th n ha hth hta hub).symm
        · rw [h3] at hub; cases hub
          have := (h.cvr a t ha _ hta).2.1
          omega
      · rw [if_neg hai] at ha; rw [if_neg hbi] at hb
        exact h.inj a b t u n ha hb hta hub
  · -- rd
    refine single_update hi ?_ ?_
    · intro a r ha _ m hm
      obtain ⟨h1, v, h2, h3, h4⟩ := h.rd a r ha m hm
      exact ⟨Nat.le_trans h1 hN, v, hVV h2, h3, h4⟩
    · intro m hm
      rcases k.rd with hr | ⟨m', v, hr, h1, h2, h3, h4, _, _⟩
      · rw [hr] at hm; cases hm
      · rw [hr] at hm; cases hm
        exact ⟨h1, v, hVV h2, by rw [k.op]; exact h3, by rw [k.op]; exact h4⟩
  · -- fresh
    refine pair_update hi h.fresh ?_ ?_ ?_
    · -- r = th', w = u
      intro b u hb hbi m a bb n hrv _ hres _ hcv _
      rcases k.rd with hr | ⟨m', v, hr, _, _, _, _, _, hsrc⟩
      · rw [hr] at hrv; cases hrv
      · rw [hr] at hrv; cases hrv
        exact hsrc b u n hb hbi hres hcv
    · -- r = t, w = th'
      intro a t ha _ m aa bb n _ hinv _ hret _ hlt
      rw [k.tret] at hret; cases hret
      have := hinvlt a t aa ha hinv
      omega
    · intro m a b n hrv _ hres _ _ _
      rcases k.rd with hr | ⟨m', v, hr, _, _, h3, _⟩
      · rw [hr] at hrv; cases hrv
      · rw [h3] at hres
        exact absurd (Option.some.inj hres) (resOf_ne_ok _ _)
  · -- owner
    refine pair_update hi h.owner ?_ ?_ ?_
    · -- r = th', w = u
      intro b u hb _ m a bb _ _ hinv hret
      rw [k.tret] at hret; cases hret
      exact Nat.le_of_lt (hinvlt b u a hb hinv)
    · -- r = t, w = th'
      intro a t ha _ m aa bb hrv hcv' hinv hret
      rcases k.ver with ⟨_, h2, _⟩ | ⟨_, _, h3, _⟩
      · rw [h2] at hcv'
        have hs : th.cver.isSome = true := by rw [hcv']; rfl
        rw [hinv_same hs] at hinv
        exact h.owner a i t th ha hth m aa bb hrv hcv' hinv hret
      · rw [h3] at hcv'; cases hcv'
        have := (h.rd a t ha _ hrv).1
        omega
    · intro m a b hrv hcv' _ _
      exfalso
      rcases k.rd with hr | ⟨m', v, hr, _, _, _, _, hc, _⟩
      · rw [hr] at hrv; cases hrv
      · rw [hc] at hcv'; cases hcv'
  · -- order
    refine pair_update hi h.order ?_ ?_ ?_
    · -- w = th', w' = u
      intro b u hb _ n n' bb a _ hret _ _ hinv hlt
      rw [k.tret] at hret; cases hret
      have := hinvlt b u a hb hinv
      omega
    · -- w = t, w' = th'
      intro a t ha _ n n' bb aa hres hret hcv hcv' hinv hlt
      rcases k.ver with ⟨_, h2, _⟩ | ⟨_, _, h3, _⟩
      · rw [h2] at hcv'
        have hs : th.cver.isSome = true := by rw [hcv']; rfl
        rw [hinv_same hs] at hinv
        exact h.order a i t th ha hth n n' bb aa hres hret hcv hcv' hinv hlt
      · rw [h3] at hcv'; cases hcv'
        have := (h.cvr a t ha _ hcv).2.1
        omega
    · intro n n' b a _ hret _ _ hinv hlt
      rw [k.tret] at hret; cases hret
      obtain ⟨b', hb', hle⟩ := htime'.2.2 a hinv
      rw [k.tret] at hb'; cases hb'
      omega



/-! ### Step equations of the get/exists/set/delete calls (repaired variant, no cache-tier failure) -/

theorem step_get_start (R : Route) (i : Nat) (ft : Option Tier) (σ : St) (t : Thread)
    (hop : t.op = .get) (hpc : t.pc = .start) (hfc : fails ft R.ck = false) :
    ((stepThread true R i ft σ t).st, (stepThread true R i ft σ t).th) =
      match (σ.cell R.ck).val with
      | some v => (σ, { finish t (.val v) with rver := some (σ.cell R.ck).ver })
      | none =>
        if (R.pe && !R.passErr) = true then (σ, { t with pc := .readP })
        else (σ, { finish t .nf with rver := some (σ.cell R.ck).ver }) := by
  obtain ⟨op, pc, inv, ret, res, cver, rver, node⟩ := t
  simp only at hpc hop
  subst hpc; subst hop
  simp only [stepThread, hfc, Bool.false_eq_true, ↓reduceIte]
  cases (σ.cell R.ck).val with
  | some v => simp [readRes]
  | none => by_cases hc : (R.pe && !R.passErr) = true <;> simp [hc]

theorem step_get_readP (R : Route) (i : Nat) (ft : Option Tier) (σ : St) (t : Thread)
    (hop : t.op = .get) (hpc : t.pc = .readP) :
    ((stepThread true R i ft σ t).st, (stepThread true R i ft σ t).th) =
      if fails ft .persistent = true then (unlock σ, finish t .err)
      else match σ.p.val with
        | none => (unlock σ, { finish t .nf with rver := some σ.p.ver })
        | some v => ({ σ with lock := some i }, { t with pc := .wb v σ.p.ver }) := by
  obtain ⟨op, pc, inv, ret, res, cver, rver, node⟩ := t
  simp only at hpc hop
  subst hpc; subst hop
  simp only [stepThread]
  split
  · rfl
  · cases σ.p.val <;> simp

theorem step_get_wb (R : Route) (i : Nat) (ft : Option Tier) (σ : St) (t : Thread) (v : Val) (ver : Nat)
    (hop : t.op = .get) (hpc : t.pc = .wb v ver) (hfc : fails ft R.ck = false) :
    ((stepThread true R i ft σ t).st, (stepThread true R i ft σ t).th) =
      (unlock (σ.setCell R.ck ⟨some v, R.wbTTL, ver⟩), { finish t (.val v) with rver := some ver }) := by
  obtain ⟨op, pc, inv, ret, res, cver, rver, node⟩ := t
  simp only at hpc hop
  subst hpc; subst hop
  simp [stepThread, hfc, readRes]

theorem step_ex_start (R : Route) (i : Nat) (ft : Option Tier) (σ : St) (t : Thread)
    (hop : t.op = .ex) (hpc : t.pc = .start) (hfc : fails ft R.ck = false) :
    ((stepThread true R i ft σ t).st, (stepThread true R i ft σ t).th) =
      if (σ.cell R.ck).val.isSome = true then (σ, { finish t (.bool true) with rver := some (σ.cell R.ck).ver })
      else if (R.pe && !R.passErr) = true then (σ, { t with pc := .exP })
      else (σ, { finish t (.bool false) with rver := some (σ.cell R.ck).ver }) := by
  obtain ⟨op, pc, inv, ret, res, cver, rver, node⟩ := t
  simp only at hpc hop
  subst hpc; subst hop
  simp only [stepThread, hfc, Bool.false_eq_true, ↓reduceIte]
  by_cases h1 : (σ.cell R.ck).val.isSome = true
  · simp [h1]
  · by_cases hc : (R.pe && !R.passErr) = true <;> simp [h1, hc]

theorem step_ex_exP (R : Route) (i : Nat) (ft : Option Tier) (σ : St) (t : Thread)
    (hop : t.op = .ex) (hpc : t.pc = .exP) :
    ((stepThread true R i ft σ t).st, (stepThread true R i ft σ t).th) =
      if fails ft .persistent = true then (σ, finish t .err)
      else (σ, { finish t (.bool σ.p.val.isSome) with rver := some σ.p.ver }) := by
  obtain ⟨op, pc, inv, ret, res, cver, rver, node⟩ := t
  simp only at hpc hop
  subst hpc; subst hop
  simp only [stepThread]
  split <;> rfl

theorem step_set_start (R : Route) (i : Nat) (ft : Option Tier) (σ : St) (t : Thread) (v : Val) (ttl : Nat)
    (hop : t.op = .set v ttl) (hpc : t.pc = .start) :
    stepThread true R i ft σ t = writeStep R i ft { σ with lock := some i } t v ttl := by
  obtain ⟨op, pc, inv, ret, res, cver, rver, node⟩ := t
  simp only at hpc hop
  subst hpc; subst hop
  simp [stepThread]

theorem step_set_writeC (R : Route) (i : Nat) (ft : Option Tier) (σ : St) (t : Thread) (v0 : Val) (ttl0 : Nat)
    (v : Val) (ttl ver : Nat)
    (hop : t.op = .set v0 ttl0) (hpc : t.pc = .writeC v ttl ver) (hfc : fails ft R.ck = false) :
    ((stepThread true R i ft σ t).st, (stepThread true R i ft σ t).th) =
      (unlock (σ.setCell R.ck ⟨some v, ttl, ver⟩), finish t .ok) := by
  obtain ⟨op, pc, inv, ret, res, cver, rver, node⟩ := t
  simp only at hpc hop
  subst hpc; subst hop
  simp [stepThread, hfc]

theorem step_del_start (R : Route) (i : Nat) (ft : Option Tier) (σ : St) (t : Thread)
    (hop : t.op = .del) (hpc : t.pc = .start) (hfc : fails ft R.ck = false) :
    ((stepThread true R i ft σ t).st, (stepThread true R i ft σ t).th) =
      if R.pe = true then
        (({ σ with lock := some i } : St).setCell R.ck ⟨none, 0, (σ.cell R.ck).ver⟩, { t with pc := .delP false })
      else
        (unlock (({ σ with nver := σ.nver + 1 } : St).setCell R.ck ⟨none, 0, σ.nver + 1⟩),
          { finish t .ok with cver := some (σ.nver + 1) }) := by
  obtain ⟨op, pc, inv, ret, res, cver, rver, node⟩ := t
  simp only at hpc hop
  subst hpc; subst hop
  simp only [stepThread, hfc, Bool.false_eq_true, ↓reduceIte]
  split <;> simp

theorem step_del_delP (R : Route) (i : Nat) (ft : Option Tier) (σ : St) (t : Thread) (cerr : Bool)
    (hop : t.op = .del) (hpc : t.pc = .delP cerr) :
    ((stepThread true R i ft σ t).st, (stepThread true R i ft σ t).th) =
      if fails ft .persistent = true then (unlock σ, finish t .err)
      else (unlock { σ with p := ⟨none, 0, σ.nver + 1⟩, nver := σ.nver + 1 },
            { finish t (if cerr then .err else .ok) with cver := some (σ.nver + 1) }) := by
  obtain ⟨op, pc, inv, ret, res, cver, rver, node⟩ := t
  simp only at hpc hop
  subst hpc; subst hop
  simp only [stepThread]
  split <;> rfl


/-! ### Where a read takes its content from -/

theorem curCell_pe {R : Route} {σ : St} (h : R.pe = true) : curCell R σ = σ.p := by simp [curCell, h]
theorem curCell_npe {R : Route} {σ : St} (h : R.pe = false) : curCell R σ = σ.cell R.ck := by simp [curCell, h]

/-- Reading a present cache cell: its version is at least every version committed by a call that has
returned successfully (inside `Set`'s window the newest version's writer has not returned). -/
theorem src_ck {R : Route} {init : Option Val} {cfg : Cfg} (h : FInv R init cfg) {v : Val}
    (hv : (cfg.st.cell R.ck).val = some v) :
    (∀ (j : Nat) (w : Thread) (n : Nat), cfg.threads[j]? = some w → w.res = some .ok → w.cver = some n →
        n ≤ (cfg.st.cell R.ck).ver) ∧
    VV cfg.threads init (cfg.st.cell R.ck).ver (some v) ∧ (cfg.st.cell R.ck).ver ≤ cfg.st.nver := by
  cases hpe : R.pe with
  | false =>
    have hcur := curCell_npe (σ := cfg.st) hpe
    have hver := h.curver
    have hval := h.curval
    rw [hcur] at hver hval
    rw [hv] at hval
    refine ⟨?_, by rw [hver]; exact hval, by rw [hver]; exact Nat.le_refl _⟩
    intro j w n hw _ hn
    rw [hver]; exact (h.cvr j w hw n hn).2.1
  | true =>
    obtain ⟨hvv, hle⟩ := h.ckval hpe v hv
    refine ⟨?_, hvv, hle⟩
    intro j w n hw hres hn
    have hnN := (h.cvr j w hw n hn).2.1
    cases hl : cfg.st.lock with
    | none =>
      rcases h.coh hpe hl with h1 | h1
      · rw [hv] at h1; cases h1
      · rw [h1]; exact hnN
    | some k =>
      obtain ⟨t, ht, hcs⟩ := h.owned k hl
      have hf := h.facts k t ht
      unfold kvFacts at hf
      unfold inCS at hcs
      cases hpc : t.pc with
      | wb v' ver' =>
        simp only [hpc] at hf
        rcases hf.2.2.2.2.1 with h1 | h1
        · rw [hv] at h1; cases h1
        · rw [h1]; exact hnN
      | writeC v' ttl' ver' =>
        simp only [hpc] at hf
        obtain ⟨_, _, _, hck, hcc, _, hresk, _⟩ := hf
        rcases hcc with h1 | h1
        · rw [hv] at h1; cases h1
        · by_cases hnn : n = cfg.st.nver
          · subst hnn
            have := h.inj j k w t _ hw ht hn hck
            subst this
            rw [hw] at ht; cases ht
            rw [hresk] at hres; cases hres
          · omega
      | delP cerr' =>
        simp only [hpc] at hf
        rw [hv] at hf; exact absurd hf.2.2.2.1 (by simp)
      | start => simp [hpc] at hcs
      | readP => simp [hpc] at hcs
      | write a b => simp [hpc] at hcs
      | exP => simp [hpc] at hcs
      | expW a b c => simp [hpc] at hcs
      | done => simp [hpc] at hcs

theorem lockfree_others {R : Route} {init : Option Val} {cfg : Cfg} (h : FInv R init cfg)
    (hl : cfg.st.lock = none) : ∀ (j : Nat) (t : Thread), cfg.threads[j]? = some t → ¬ inCS t.pc := by
  intro j t ht hcs
  have := h.holder j t ht hcs
  rw [hl] at this; cases this

theorem locki_others {R : Route} {init : Option Val} {cfg : Cfg} (h : FInv R init cfg) {i : Nat}
    (hl : cfg.st.lock = some i) : ∀ (j : Nat) (t : Thread), j ≠ i → cfg.threads[j]? = some t → ¬ inCS t.pc := by
  intro j t hji ht hcs
  have := h.holder j t ht hcs
  rw [hl] at this; exact hji (Option.some.inj this).symm

/-- A thread that is not inside the critical section and needs the lock finds it free when enabled. -/
theorem lock_free_of_enabled {R : Route} {init : Option Val} {cfg : Cfg} (h : FInv R init cfg) {i : Nat}
    {th : Thread} (hth : cfg.threads[i]? = some th) (hen : enabled true cfg.st i th = true)
    (hneed : needsLock th.op th.pc = true) (hncs : ¬ inCS th.pc) : cfg.st.lock = none := by
  unfold enabled at hen
  simp only [hneed, Bool.not_true, Bool.false_or, Bool.and_eq_true, Bool.or_eq_true] at hen
  rcases hen.2 with h1 | h1
  · simpa using h1
  · have hl : cfg.st.lock = some i := by simpa using h1
    obtain ⟨t, ht, hcs⟩ := h.owned i hl
    rw [hth] at ht; cases ht
    exact absurd hcs hncs



/-- The moving thread with its time stamps updated (what `stepCfg` hands to `stepThread`). -/
def th0 (th : Thread) (now : Nat) : Thread := { th with inv := some (th.inv.getD now), ret := some now }

theorem noCS_start {pc : PC} (h : pc = .start) : ¬ inCS pc := by subst h; simp [inCS]
theorem noCS_done : ¬ inCS PC.done := by simp [inCS]

section
variable {R : Route} {init : Option Val} {cfg : Cfg} (h : FInv R init cfg)
  (hck : R.ck ≠ .persistent) (hpp : R.pe = true → R.passErr = false)
  {i : Nat} {th : Thread} (hth : cfg.threads[i]? = some th) {ft : Option Tier} (hpf : PFault ft)
  (hen : enabled true cfg.st i th = true)

include h hck hpp hth hpf hen

theorem kstep_get_start (hop : th.op = .get) (hpc : th.pc = .start) :
    KStep R init cfg i th (stepThread true R i ft cfg.st (th0 th cfg.now)).st
      (stepThread true R i ft cfg.st (th0 th cfg.now)).th := by
  have hfc : fails ft R.ck = false := fails_ck_false hpf hck
  have hf := h.facts i th hth
  simp only [kvFacts, hpc] at hf
  obtain ⟨hcv, hrv, hres, hinv, _⟩ := hf
  have heq := step_get_start R i ft cfg.st (th0 th cfg.now) hop hpc hfc
  have h1 := congrArg Prod.fst heq
  have h2 := congrArg Prod.snd heq
  simp only at h1 h2
  rw [h1, h2]
  cases hcc : (cfg.st.cell R.ck).val with
  | some v =>
    simp only
    obtain ⟨hsrc, hvv, hle⟩ := src_ck h hcc
    exact {
      op := rfl, tinv := rfl, tret := rfl, old := ⟨hrv, hres⟩
      cinv := by intro hc; rw [hcv] at hc; cases hc
      ver := Or.inl ⟨rfl, rfl, rfl, h.curver⟩
      rd := Or.inr ⟨_, some v, rfl, hle, hvv, by simp [finish, resOf, hop], Or.inl hop, hcv,
        fun j w n hw _ hr hn => hsrc j w n hw hr hn⟩
      lock := Or.inr (Or.inr ⟨noCS_done, noCS_start hpc, rfl⟩)
      ck := fun _ _ _ => Or.inl rfl
      facts := by simp [kvFacts, finish, th0, hcv] }
  | none =>
    simp only
    by_cases hc : (R.pe && !R.passErr) = true
    · simp only [hc, if_true]
      have hpe : R.pe = true := by simp at hc; exact hc.1
      exact {
        op := rfl, tinv := rfl, tret := rfl, old := ⟨hrv, hres⟩
        cinv := by intro hc; rw [hcv] at hc; cases hc
        ver := Or.inl ⟨rfl, rfl, rfl, h.curver⟩
        rd := Or.inl hrv
        lock := Or.inr (Or.inr ⟨by simp [inCS], noCS_start hpc, rfl⟩)
        ck := fun _ _ _ => Or.inl rfl
        facts := by simp [kvFacts, th0, hop, hpe, hcv, hrv, hres] }
    · simp only [hc]
      have hpe : R.pe = false := by
        cases hq : R.pe with
        | false => rfl
        | true => simp [hq, hpp hq] at hc
      have hcur := curCell_npe (σ := cfg.st) hpe
      have hver := h.curver
      have hval := h.curval
      rw [hcur] at hver hval
      rw [hcc] at hval
      exact {
        op := rfl, tinv := rfl, tret := rfl, old := ⟨hrv, hres⟩
        cinv := by intro hc; rw [hcv] at hc; cases hc
        ver := Or.inl ⟨rfl, rfl, rfl, h.curver⟩
        rd := Or.inr ⟨_, none, rfl, by rw [hver]; exact Nat.le_refl _, by rw [hver]; exact hval,
          by simp [finish, resOf, hop], Or.inl hop, hcv,
          fun j w n hw _ _ hn => by rw [hver]; exact (h.cvr j w hw n hn).2.1⟩
        lock := Or.inr (Or.inr ⟨noCS_done, noCS_start hpc, rfl⟩)
        ck := fun _ _ _ => Or.inl rfl
        facts := by simp [kvFacts, finish, th0, hcv] }

theorem kstep_get_readP (hop : th.op = .get) (hpc : th.pc = .readP) :
    KStep R init cfg i th (stepThread true R i ft cfg.st (th0 th cfg.now)).st
      (stepThread true R i ft cfg.st (th0 th cfg.now)).th := by
  have hf := h.facts i th hth
  simp only [kvFacts, hpc] at hf
  obtain ⟨_, hpe, hcv, hrv, hres, hinv⟩ := hf
  have hncs : ¬ inCS th.pc := by rw [hpc]; simp [inCS]
  have hlk : cfg.st.lock = none := lock_free_of_enabled h hth hen (by simp [hop, hpc, needsLock]) hncs
  have hoth := lockfree_others h hlk
  have hcur := curCell_pe (σ := cfg.st) hpe
  have hpver : cfg.st.p.ver = cfg.st.nver := by rw [← hcur]; exact h.curver
  have hpval : VV cfg.threads init cfg.st.nver cfg.st.p.val := by rw [← hcur]; exact h.curval
  have heq := step_get_readP R i ft cfg.st (th0 th cfg.now) hop hpc
  have h1 := congrArg Prod.fst heq
  have h2 := congrArg Prod.snd heq
  simp only at h1 h2
  rw [h1, h2]
  by_cases hfp : fails ft .persistent = true
  · simp only [hfp, if_true]
    exact {
      op := rfl, tinv := rfl, tret := rfl, old := ⟨hrv, hres⟩
      cinv := by intro hc; rw [hcv] at hc; cases hc
      ver := Or.inl ⟨rfl, rfl, by simp [curCell, hpe], by simpa [curCell, hpe] using hpver⟩
      rd := Or.inl hrv
      lock := Or.inr (Or.inl ⟨noCS_done, rfl, fun j t _ ht => hoth j t ht, fun hp => by simpa using h.coh hp hlk⟩)
      ck := fun _ _ _ => Or.inl (by simp)
      facts := by simp [kvFacts, finish, th0, hcv, hinv, hrv] }
  · have hfp' : fails ft .persistent = false := by simpa using hfp
    simp only [hfp', Bool.false_eq_true, ↓reduceIte]
    cases hp : cfg.st.p.val with
    | none =>
      simp only
      rw [hp] at hpval
      exact {
        op := rfl, tinv := rfl, tret := rfl, old := ⟨hrv, hres⟩
        cinv := by intro hc; rw [hcv] at hc; cases hc
        ver := Or.inl ⟨rfl, rfl, by simp [curCell, hpe], by simpa [curCell, hpe] using hpver⟩
        rd := Or.inr ⟨_, none, rfl, by simp [hpver], by rw [hpver]; exact hpval,
          by simp [finish, resOf, hop, th0], Or.inl hop, hcv,
          fun j w n hw _ _ hn => by rw [hpver]; exact (h.cvr j w hw n hn).2.1⟩
        lock := Or.inr (Or.inl ⟨noCS_done, rfl, fun j t _ ht => hoth j t ht, fun hp => by simpa using h.coh hp hlk⟩)
        ck := fun _ _ _ => Or.inl (by simp)
        facts := by simp [kvFacts, finish, th0, hcv] }
    | some v =>
      simp only
      exact {
        op := rfl, tinv := rfl, tret := rfl, old := ⟨hrv, hres⟩
        cinv := by intro hc; rw [hcv] at hc; cases hc
        ver := Or.inl ⟨rfl, rfl, by simp [curCell, hpe], by simpa [curCell, hpe] using hpver⟩
        rd := Or.inl hrv
        lock := Or.inl ⟨by simp [inCS], rfl, fun j t _ ht => hoth j t ht⟩
        ck := fun _ _ _ => Or.inl (by simp)
        facts := by
          simp only [kvFacts, th0]
          exact ⟨hop, hpe, hpver, hp, by simpa using h.coh hpe hlk, hcv, hrv, hres, rfl⟩ }

theorem kstep_get_wb (hop : th.op = .get) {v : Val} {ver : Nat} (hpc : th.pc = .wb v ver) :
    KStep R init cfg i th (stepThread true R i ft cfg.st (th0 th cfg.now)).st
      (stepThread true R i ft cfg.st (th0 th cfg.now)).th := by
  have hfc : fails ft R.ck = false := fails_ck_false hpf hck
  have hf := h.facts i th hth
  simp only [kvFacts, hpc] at hf
  obtain ⟨_, hpe, hver, hp, _, hcv, hrv, hres, hinv⟩ := hf
  have hlk : cfg.st.lock = some i := h.holder i th hth (by rw [hpc]; simp [inCS])
  have hoth := locki_others h hlk
  have hcur := curCell_pe (σ := cfg.st) hpe
  have hpver : cfg.st.p.ver = cfg.st.nver := by rw [← hcur]; exact h.curver
  have hpval : VV cfg.threads init cfg.st.nver (some v) := by
    have := h.curval; rw [hcur, hp] at this; exact this
  have heq := step_get_wb R i ft cfg.st (th0 th cfg.now) v ver hop hpc hfc
  have h1 := congrArg Prod.fst heq
  have h2 := congrArg Prod.snd heq
  simp only at h1 h2
  rw [h1, h2]
  subst hver
  exact {
    op := rfl, tinv := rfl, tret := rfl, old := ⟨hrv, hres⟩
    cinv := by intro hc; rw [hcv] at hc; cases hc
    ver := Or.inl ⟨by simp, rfl, by simp [curCell, hpe, p_setCell _ _ _ hck],
      by simpa [curCell, hpe, p_setCell _ _ _ hck] using hpver⟩
    rd := Or.inr ⟨_, some v, rfl, by simp, hpval, by simp [finish, resOf, hop, th0], Or.inl hop, hcv,
      fun j w n hw _ _ hn => (h.cvr j w hw n hn).2.1⟩
    lock := Or.inr (Or.inl ⟨noCS_done, rfl, hoth, fun _ => Or.inr (by simp)⟩)
    ck := fun _ v' hv' => Or.inr (by
      have : v' = v := by simpa using hv'.symm
      subst this
      simpa using hpval)
    facts := by simp [kvFacts, finish, th0, hcv] }

theorem kstep_ex_start (hop : th.op = .ex) (hpc : th.pc = .start) :
    KStep R init cfg i th (stepThread true R i ft cfg.st (th0 th cfg.now)).st
      (stepThread true R i ft cfg.st (th0 th cfg.now)).th := by
  have hfc : fails ft R.ck = false := fails_ck_false hpf hck
  have hf := h.facts i th hth
  simp only [kvFacts, hpc] at hf
  obtain ⟨hcv, hrv, hres, hinv, _⟩ := hf
  have heq := step_ex_start R i ft cfg.st (th0 th cfg.now) hop hpc hfc
  have h1 := congrArg Prod.fst heq
  have h2 := congrArg Prod.snd heq
  simp only at h1 h2
  rw [h1, h2]
  cases hcc : (cfg.st.cell R.ck).val with
  | some v =>
    simp only [Option.isSome_some, if_true]
    obtain ⟨hsrc, hvv, hle⟩ := src_ck h hcc
    exact {
      op := rfl, tinv := rfl, tret := rfl, old := ⟨hrv, hres⟩
      cinv := by intro hc; rw [hcv] at hc; cases hc
      ver := Or.inl ⟨rfl, rfl, rfl, h.curver⟩
      rd := Or.inr ⟨_, some v, rfl, hle, hvv, by simp [finish, resOf, hop], Or.inr hop, hcv,
        fun j w n hw _ hr hn => hsrc j w n hw hr hn⟩
      lock := Or.inr (Or.inr ⟨noCS_done, noCS_start hpc, rfl⟩)
      ck := fun _ _ _ => Or.inl rfl
      facts := by simp [kvFacts, finish, th0, hcv] }
  | none =>
    simp only [Option.isSome_none, Bool.false_eq_true, if_false]
    by_cases hc : (R.pe && !R.passErr) = true
    · simp only [hc, if_true]
      have hpe : R.pe = true := by simp at hc; exact hc.1
      exact {
        op := rfl, tinv := rfl, tret := rfl, old := ⟨hrv, hres⟩
        cinv := by intro hc; rw [hcv] at hc; cases hc
        ver := Or.inl ⟨rfl, rfl, rfl, h.curver⟩
        rd := Or.inl hrv
        lock := Or.inr (Or.inr ⟨by simp [inCS], noCS_start hpc, rfl⟩)
        ck := fun _ _ _ => Or.inl rfl
        facts := by simp [kvFacts, th0, hop, hpe, hcv, hrv, hres] }
    · simp only [hc]
      have hpe : R.pe = false := by
        cases hq : R.pe with
        | false => rfl
        | true => simp [hq, hpp hq] at hc
      have hcur := curCell_npe (σ := cfg.st) hpe
      have hver := h.curver
      have hval := h.curval
      rw [hcur] at hver hval
      rw [hcc] at hval
      exact {
        op := rfl, tinv := rfl, tret := rfl, old := ⟨hrv, hres⟩
        cinv := by intro hc; rw [hcv] at hc; cases hc
        ver := Or.inl ⟨rfl, rfl, rfl, h.curver⟩
        rd := Or.inr ⟨_, none, rfl, by rw [hver]; exact Nat.le_refl _, by rw [hver]; exact hval,
          by simp [finish, resOf, hop], Or.inr hop, hcv,
          fun j w n hw _ _ hn => by rw [hver]; exact (h.cvr j w hw n hn).2.1⟩
        lock := Or.inr (Or.inr ⟨noCS_done, noCS_start hpc, rfl⟩)
        ck := fun _ _ _ => Or.inl rfl
        facts := by simp [kvFacts, finish, th0, hcv] }

theorem kstep_ex_exP (hop : th.op = .ex) (hpc : th.pc = .exP) :
    KStep R init cfg i th (stepThread true R i ft cfg.st (th0 th cfg.now)).st
      (stepThread true R i ft cfg.st (th0 th cfg.now)).th := by
  have hf := h.facts i th hth
  simp only [kvFacts, hpc] at hf
  obtain ⟨_, hpe, hcv, hrv, hres, hinv⟩ := hf
  have hncs : ¬ inCS th.pc := by rw [hpc]; simp [inCS]
  have hcur := curCell_pe (σ := cfg.st) hpe
  have hpver : cfg.st.p.ver = cfg.st.nver := by rw [← hcur]; exact h.curver
  have hpval : VV cfg.threads init cfg.st.nver cfg.st.p.val := by rw [← hcur]; exact h.curval
  have heq := step_ex_exP R i ft cfg.st (th0 th cfg.now) hop hpc
  have h1 := congrArg Prod.fst heq
  have h2 := congrArg Prod.snd heq
  simp only at h1 h2
  rw [h1, h2]
  by_cases hfp : fails ft .persistent = true
  · simp only [hfp, if_true]
    exact {
      op := rfl, tinv := rfl, tret := rfl, old := ⟨hrv, hres⟩
      cinv := by intro hc; rw [hcv] at hc; cases hc
      ver := Or.inl ⟨rfl, rfl, rfl, h.curver⟩
      rd := Or.inl hrv
      lock := Or.inr (Or.inr ⟨noCS_done, hncs, rfl⟩)
      ck := fun _ _ _ => Or.inl rfl
      facts := by simp [kvFacts, finish, th0, hcv, hinv, hrv] }
  · have hfp' : fails ft .persistent = false := by simpa using hfp
    simp only [hfp', Bool.false_eq_true, ↓reduceIte]
    exact {
      op := rfl, tinv := rfl, tret := rfl, old := ⟨hrv, hres⟩
      cinv := by intro hc; rw [hcv] at hc; cases hc
      ver := Or.inl ⟨rfl, rfl, rfl, h.curver⟩
      rd := Or.inr ⟨_, cfg.st.p.val, rfl, by simp [hpver], by rw [hpver]; exact hpval,
        by simp [finish, resOf, hop, th0], Or.inr hop, hcv,
        fun j w n hw _ _ hn => by rw [hpver]; exact (h.cvr j w hw n hn).2.1⟩
      lock := Or.inr (Or.inr ⟨noCS_done, hncs, rfl⟩)
      ck := fun _ _ _ => Or.inl rfl
      facts := by simp [kvFacts, finish, th0, hcv] }

theorem kstep_set_start {v : Val} {ttl : Nat} (hop : th.op = .set v ttl) (hpc : th.pc = .start) :
    KStep R init cfg i th (stepThread true R i ft cfg.st (th0 th cfg.now)).st
      (stepThread true R i ft cfg.st (th0 th cfg.now)).th := by
  have hfc : fails ft R.ck = false := fails_ck_false hpf hck
  have hf := h.facts i th hth
  simp only [kvFacts, hpc] at hf
  obtain ⟨hcv, hrv, hres, hinv, _⟩ := hf
  have hncs : ¬ inCS th.pc := noCS_start hpc
  have hlk : cfg.st.lock = none := lock_free_of_enabled h hth hen (by simp [hop, hpc, needsLock]) hncs
  have hoth := lockfree_others h hlk
  have hW : isW th.op := Or.inl ⟨v, ttl, hop⟩
  rw [step_set_start R i ft cfg.st (th0 th cfg.now) v ttl hop hpc]
  unfold writeStep
  by_cases hpe : R.pe = true
  · simp only [hpe, if_true]
    have hcur := curCell_pe (σ := cfg.st) hpe
    have hpver : cfg.st.p.ver = cfg.st.nver := by rw [← hcur]; exact h.curver
    by_cases hfp : fails ft .persistent = true
    · simp only [hfp, if_true]
      exact {
        op := rfl, tinv := rfl, tret := rfl, old := ⟨hrv, hres⟩
        cinv := by intro hc; rw [hcv] at hc; cases hc
        ver := Or.inl ⟨rfl, rfl, by simp [curCell, hpe, unlock], by simpa [curCell, hpe, unlock] using hpver⟩
        rd := Or.inl hrv
        lock := Or.inr (Or.inl ⟨noCS_done, rfl, fun j t _ ht => hoth j t ht,
          fun hp => by simpa [unlock] using h.coh hp hlk⟩)
        ck := fun _ _ _ => Or.inl (by simp [unlock])
        facts := by simp [kvFacts, finish, th0, hcv, hrv]; try exact hW }
    · have hfp' : fails ft .persistent = false := by simpa using hfp
      simp only [hfp', Bool.false_eq_true, ↓reduceIte]
      exact {
        op := rfl, tinv := rfl, tret := rfl, old := ⟨hrv, hres⟩
        cinv := by intro hc; rw [hcv] at hc; cases hc
        ver := Or.inr ⟨rfl, hcv, rfl, hW, by simp [curCell, hpe, wval, hop], by simp [curCell, hpe]⟩
        rd := Or.inl hrv
        lock := Or.inl ⟨by simp [inCS], rfl, fun j t _ ht => hoth j t ht⟩
        ck := fun _ _ _ => Or.inl (cell_ck_of_p _ _ _ _ _ hck)
        facts := by
          simp only [kvFacts, th0]
          refine ⟨⟨ttl, hop⟩, hpe, by first | trivial | rfl, by first | trivial | rfl, ?_, hrv, hres,
            by first | trivial | rfl⟩
          have := h.coh hpe hlk
          rw [cell_ck_of_p _ _ _ _ _ hck]
          rcases this with h1 | h1
          · exact Or.inl h1
          · exact Or.inr (by simp [h1]) }
  · have hpe' : R.pe = false := by cases hq : R.pe <;> simp_all
    simp only [hpe', hfc, Bool.false_eq_true, ↓reduceIte]
    exact {
      op := rfl, tinv := rfl, tret := rfl, old := ⟨hrv, hres⟩
      cinv := by intro hc; rw [hcv] at hc; cases hc
      ver := Or.inr ⟨by simp, hcv, rfl, hW, by simp [curCell, hpe', wval, hop], by simp [curCell, hpe']⟩
      rd := Or.inl hrv
      lock := Or.inr (Or.inl ⟨noCS_done, by simp, fun j t _ ht => hoth j t ht,
        fun hp => by rw [hpe'] at hp; cases hp⟩)
      ck := fun hp => by rw [hpe'] at hp; cases hp
      facts := by simp [kvFacts, finish, th0, hcv, hrv]; try exact hW }

theorem kstep_set_writeC {v0 : Val} {ttl0 : Nat} (hop : th.op = .set v0 ttl0) {v : Val} {ttl ver : Nat}
    (hpc : th.pc = .writeC v ttl ver) :
    KStep R init cfg i th (stepThread true R i ft cfg.st (th0 th cfg.now)).st
      (stepThread true R i ft cfg.st (th0 th cfg.now)).th := by
  have hfc : fails ft R.ck = false := fails_ck_false hpf hck
  have hf := h.facts i th hth
  simp only [kvFacts, hpc] at hf
  obtain ⟨⟨tt, hopv⟩, hpe, hver, hcv, _, hrv, hres, hinv⟩ := hf
  have hlk : cfg.st.lock = some i := h.holder i th hth (by rw [hpc]; simp [inCS])
  have hoth := locki_others h hlk
  have hcur := curCell_pe (σ := cfg.st) hpe
  have hpver : cfg.st.p.ver = cfg.st.nver := by rw [← hcur]; exact h.curver
  have heq := step_set_writeC R i ft cfg.st (th0 th cfg.now) v0 ttl0 v ttl ver hop hpc hfc
  have h1 := congrArg Prod.fst heq
  have h2 := congrArg Prod.snd heq
  simp only at h1 h2
  rw [h1, h2]
  subst hver
  exact {
    op := rfl, tinv := rfl, tret := rfl, old := ⟨hrv, hres⟩
    cinv := fun _ => hinv
    ver := Or.inl ⟨by simp, rfl, by simp [curCell, hpe, p_setCell _ _ _ hck],
      by simpa [curCell, hpe, p_setCell _ _ _ hck] using hpver⟩
    rd := Or.inl hrv
    lock := Or.inr (Or.inl ⟨noCS_done, rfl, hoth, fun _ => Or.inr (by simp)⟩)
    ck := fun _ v' hv' => Or.inr (by
      have : v' = v := by simpa using hv'.symm
      subst this
      simp only [cell_unlock, cell_setCell_self, nver_unlock, nver_setCell, Nat.le_refl, and_true]
      exact Or.inr ⟨i, th, hth, hcv, by rw [hopv]; rfl⟩)
    facts := by simp [kvFacts, finish, th0, hcv, hinv, hrv]; exact Or.inl ⟨v0, ttl0, hop⟩ }

theorem kstep_del_start (hop : th.op = .del) (hpc : th.pc = .start) :
    KStep R init cfg i th (stepThread true R i ft cfg.st (th0 th cfg.now)).st
      (stepThread true R i ft cfg.st (th0 th cfg.now)).th := by
  have hfc : fails ft R.ck = false := fails_ck_false hpf hck
  have hf := h.facts i th hth
  simp only [kvFacts, hpc] at hf
  obtain ⟨hcv, hrv, hres, hinv, _⟩ := hf
  have hncs : ¬ inCS th.pc := noCS_start hpc
  have hlk : cfg.st.lock = none := lock_free_of_enabled h hth hen (by simp [hop, hpc, needsLock]) hncs
  have hoth := lockfree_others h hlk
  have hW : isW th.op := Or.inr hop
  have heq := step_del_start R i ft cfg.st (th0 th cfg.now) hop hpc hfc
  have h1 := congrArg Prod.fst heq
  have h2 := congrArg Prod.snd heq
  simp only at h1 h2
  rw [h1, h2]
  by_cases hpe : R.pe = true
  · simp only [hpe, if_true]
    have hcur := curCell_pe (σ := cfg.st) hpe
    have hpver : cfg.st.p.ver = cfg.st.nver := by rw [← hcur]; exact h.curver
    exact {
      op := rfl, tinv := rfl, tret := rfl, old := ⟨hrv, hres⟩
      cinv := by intro hc; rw [hcv] at hc; cases hc
      ver := Or.inl ⟨by simp, rfl, by simp [curCell, hpe, p_setCell _ _ _ hck],
        by simpa [curCell, hpe, p_setCell _ _ _ hck] using hpver⟩
      rd := Or.inl hrv
      lock := Or.inl ⟨by simp [inCS], by simp, fun j t _ ht => hoth j t ht⟩
      ck := fun _ v' hv' => by simp at hv'
      facts := by simp [kvFacts, th0, hop, hpe, hcv, hrv, hres] }
  · have hpe' : R.pe = false := by cases hq : R.pe <;> simp_all
    simp only [hpe', Bool.false_eq_true, ↓reduceIte]
    exact {
      op := rfl, tinv := rfl, tret := rfl, old := ⟨hrv, hres⟩
      cinv := by intro hc; rw [hcv] at hc; cases hc
      ver := Or.inr ⟨by simp, hcv, rfl, hW, by simp [curCell, hpe', wval, hop], by simp [curCell, hpe']⟩
      rd := Or.inl hrv
      lock := Or.inr (Or.inl ⟨noCS_done, by simp, fun j t _ ht => hoth j t ht,
        fun hp => by rw [hpe'] at hp; cases hp⟩)
      ck := fun hp => by rw [hpe'] at hp; cases hp
      facts := by simp [kvFacts, finish, th0, hcv, hrv]; try exact hW }

theorem kstep_del_delP (hop : th.op = .del) {cerr : Bool} (hpc : th.pc = .delP cerr) :
    KStep R init cfg i th (stepThread true R i ft cfg.st (th0 th cfg.now)).st
      (stepThread true R i ft cfg.st (th0 th cfg.now)).th := by
  have hf := h.facts i th hth
  simp only [kvFacts, hpc] at hf
  obtain ⟨_, hpe, hce, hcc, hcv, hrv, hres, hinv⟩ := hf
  have hlk : cfg.st.lock = some i := h.holder i th hth (by rw [hpc]; simp [inCS])
  have hoth := locki_others h hlk
  have hW : isW th.op := Or.inr hop
  have hcur := curCell_pe (σ := cfg.st) hpe
  have hpver : cfg.st.p.ver = cfg.st.nver := by rw [← hcur]; exact h.curver
  have heq := step_del_delP R i ft cfg.st (th0 th cfg.now) cerr hop hpc
  have h1 := congrArg Prod.fst heq
  have h2 := congrArg Prod.snd heq
  simp only at h1 h2
  rw [h1, h2]
  subst hce
  by_cases hfp : fails ft .persistent = true
  · simp only [hfp, if_true]
    exact {
      op := rfl, tinv := rfl, tret := rfl, old := ⟨hrv, hres⟩
      cinv := by intro hc; rw [hcv] at hc; cases hc
      ver := Or.inl ⟨rfl, rfl, by simp [curCell, hpe, unlock], by simpa [curCell, hpe, unlock] using hpver⟩
      rd := Or.inl hrv
      lock := Or.inr (Or.inl ⟨noCS_done, rfl, hoth, fun _ => Or.inl (by simpa using hcc)⟩)
      ck := fun _ _ _ => Or.inl (by simp)
      facts := by simp [kvFacts, finish, th0, hcv, hinv, hrv]; try exact hW }
  · have hfp' : fails ft .persistent = false := by simpa using hfp
    simp only [hfp', Bool.false_eq_true, ↓reduceIte]
    exact {
      op := rfl, tinv := rfl, tret := rfl, old := ⟨hrv, hres⟩
      cinv := by intro hc; rw [hcv] at hc; cases hc
      ver := Or.inr ⟨rfl, hcv, rfl, hW, by simp [curCell, hpe, wval, hop, unlock], by simp [curCell, hpe, unlock]⟩
      rd := Or.inl hrv
      lock := Or.inr (Or.inl ⟨noCS_done, rfl, hoth, fun _ => Or.inl (by
        show ((unlock _).cell R.ck).val = none
        rw [cell_unlock, cell_ck_of_p _ _ _ _ _ hck]; exact hcc)⟩)
      ck := fun _ _ _ => Or.inl (by rw [cell_unlock]; exact cell_ck_of_p _ _ _ _ _ hck)
      facts := by simp [kvFacts, finish, th0, hcv, hinv, hrv]; try exact hW }
end



theorem finv_now {R : Route} {init : Option Val} {cfg : Cfg} (h : FInv R init cfg) :
    FInv R init { cfg with now := cfg.now + 1 } :=
  ⟨h.kinds, fun i t ht => timeOK_mono (h.time i t ht), h.facts, h.holder, h.owned, h.coh, h.curver, h.curval,
   h.ckval, h.cvr, h.inj, h.rd, h.fresh, h.owner, h.order⟩

theorem kvFacts_evict {R : Route} {σ : St} {t : Tier} {th : Thread} (ht : t ≠ .persistent)
    (h : kvFacts R σ th) : kvFacts R (σ.setCell t ⟨none, 0, (σ.cell t).ver⟩) th := by
  have hp : (σ.setCell t ⟨none, 0, (σ.cell t).ver⟩).p = σ.p := p_setCell _ _ _ ht
  have hck : ((σ.setCell t ⟨none, 0, (σ.cell t).ver⟩).cell R.ck).val = none ∨
      (σ.setCell t ⟨none, 0, (σ.cell t).ver⟩).cell R.ck = σ.cell R.ck := by
    by_cases htc : t = R.ck
    · subst htc; left; simp
    · right; exact cell_setCell_ne _ _ _ _ htc
  unfold kvFacts at *
  cases hpc : th.pc <;> simp only [hpc] at h ⊢ <;> try exact h
  · obtain ⟨h1, h2, h3, h4, h5, h6⟩ := h
    refine ⟨h1, h2, by simpa using h3, by rw [hp]; exact h4, ?_, h6⟩
    rcases hck with hh | hh
    · exact Or.inl hh
    · rw [hh, nver_setCell]; exact h5
  · obtain ⟨h1, h2, h3, h4, h5, h6⟩ := h
    refine ⟨h1, h2, by simpa using h3, by simpa using h4, ?_, h6⟩
    rcases hck with hh | hh
    · exact Or.inl hh
    · rw [hh, nver_setCell]; exact h5
  · obtain ⟨h1, h2, h3, h4, h5⟩ := h
    refine ⟨h1, h2, h3, ?_, h5⟩
    rcases hck with hh | hh
    · exact hh
    · rw [hh]; exact h4

theorem finv_evict {R : Route} {init : Option Val} {cfg : Cfg} (h : FInv R init cfg) {t : Tier}
    (ht : t ≠ .persistent) (hpe : R.pe = true) :
    FInv R init { cfg with st := cfg.st.setCell t ⟨none, 0, (cfg.st.cell t).ver⟩, now := cfg.now + 1 } := by
  have hp : (cfg.st.setCell t ⟨none, 0, (cfg.st.cell t).ver⟩).p = cfg.st.p := p_setCell _ _ _ ht
  have hcur : curCell R (cfg.st.setCell t ⟨none, 0, (cfg.st.cell t).ver⟩) = curCell R cfg.st := by
    simp [curCell, hpe, hp]
  refine ⟨h.kinds, fun i th hth => timeOK_mono (h.time i th hth),
    fun i th hth => kvFacts_evict ht (h.facts i th hth),
    fun i th hth hcs => by show (St.setCell _ _ _).lock = some i; rw [lock_setCell]; exact h.holder i th hth hcs,
    fun i hi => h.owned i (by simpa using hi), ?_, by show (curCell R _).ver = _; rw [hcur, nver_setCell]; exact h.curver,
    by show VV _ _ (St.setCell _ _ _).nver (curCell R _).val; rw [hcur, nver_setCell]; exact h.curval, ?_,
    fun i th hth n hn => by
      have := h.cvr i th hth n hn
      exact ⟨this.1, by show n ≤ (St.setCell _ _ _).nver; rw [nver_setCell]; exact this.2.1, this.2.2⟩,
    h.inj,
    fun i r hr m hm => by
      obtain ⟨h1, h2⟩ := h.rd i r hr m hm
      exact ⟨by show m ≤ (St.setCell _ _ _).nver; rw [nver_setCell]; exact h1, h2⟩,
    h.fresh, h.owner, h.order⟩
  · intro _ hl
    show ((St.setCell _ _ _).cell R.ck).val = none ∨ ((St.setCell _ _ _).cell R.ck).ver = (St.setCell _ _ _).nver
    by_cases htc : t = R.ck
    · subst htc; left; simp
    · rw [cell_setCell_ne _ _ _ _ htc, nver_setCell]
      exact h.coh hpe (by simpa using hl)
  · intro _ v hv
    show VV _ _ ((St.setCell _ _ _).cell R.ck).ver (some v) ∧ ((St.setCell _ _ _).cell R.ck).ver ≤ (St.setCell _ _ _).nver
    have hv' : ((cfg.st.setCell t ⟨none, 0, (cfg.st.cell t).ver⟩).cell R.ck).val = some v := hv
    by_cases htc : t = R.ck
    · subst htc; simp at hv'
    · rw [cell_setCell_ne _ _ _ _ htc] at hv' ⊢
      rw [nver_setCell]
      exact h.ckval hpe v hv'

theorem finv_stepCfg (R : Route) (hck : R.ck ≠ .persistent) (hpp : R.pe = true → R.passErr = false)
    (init : Option Val) (cfg : Cfg) (e : Entry) (hpf : PFault e.fault) (hev : EvictOK R e) (hn : Nodes0 cfg)
    (hnow : 1 ≤ cfg.now)
    (h : FInv R init cfg) : FInv R init (stepCfg .repaired R cfg e) := by
  rcases stepCfg_cases0 .repaired R cfg e hn with heq | ⟨t, het, heq⟩ | ⟨th, hth, hen, heq⟩
  · rw [heq]; exact finv_now h
  · rw [heq]
    obtain ⟨h0, htp, hpe⟩ := hev t het
    rw [h0, evictCell_zero]
    exact finv_evict h htp hpe
  · rw [heq]
    simp only [Variant.lk] at hen ⊢
    rw [stepThread_spawn_repaired]
    simp only [Option.map_none, Option.toList]
    apply finv_update h hnow hth
    show KStep R init cfg e.tid th (stepThread true R e.tid e.fault cfg.st (th0 th cfg.now)).st
      (stepThread true R e.tid e.fault cfg.st (th0 th cfg.now)).th
    have hf := h.facts e.tid th hth
    have hdone : th.pc ≠ .done := by
      intro hd; unfold enabled at hen; simp [hd] at hen
    rcases h.kinds e.tid th hth with hop | hop | ⟨v, ttl, hop⟩ | hop
    · -- get
      cases hpc : th.pc with
      | start => exact kstep_get_start h hck hpp hth hpf hen hop hpc
      | readP => exact kstep_get_readP h hck hpp hth hpf hen hop hpc
      | wb v ver => exact kstep_get_wb h hck hpp hth hpf hen hop hpc
      | done => exact absurd hpc hdone
      | exP => simp [kvFacts, hpc, hop] at hf
      | writeC a b c => simp [kvFacts, hpc, hop] at hf
      | delP a => simp [kvFacts, hpc, hop] at hf
      | write a b => simp [kvFacts, hpc] at hf
      | expW a b c => simp [kvFacts, hpc] at hf
    · -- exists
      cases hpc : th.pc with
      | start => exact kstep_ex_start h hck hpp hth hpf hen hop hpc
      | exP => exact kstep_ex_exP h hck hpp hth hpf hen hop hpc
      | done => exact absurd hpc hdone
      | readP => simp [kvFacts, hpc, hop] at hf
      | wb a b => simp [kvFacts, hpc, hop] at hf
      | writeC a b c => simp [kvFacts, hpc, hop] at hf
      | delP a => simp [kvFacts, hpc, hop] at hf
      | write a b => simp [kvFacts, hpc] at hf
      | expW a b c => simp [kvFacts, hpc] at hf
    · -- set
      cases hpc : th.pc with
      | start => exact kstep_set_start h hck hpp hth hpf hen hop hpc
      | writeC a b c => exact kstep_set_writeC h hck hpp hth hpf hen hop hpc
      | done => exact absurd hpc hdone
      | readP => simp [kvFacts, hpc, hop] at hf
      | wb a b => simp [kvFacts, hpc, hop] at hf
      | exP => simp [kvFacts, hpc, hop] at hf
      | delP a => simp [kvFacts, hpc, hop] at hf
      | write a b => simp [kvFacts, hpc] at hf
      | expW a b c => simp [kvFacts, hpc] at hf
    · -- delete
      cases hpc : th.pc with
      | start => exact kstep_del_start h hck hpp hth hpf hen hop hpc
      | delP a => exact kstep_del_delP h hck hpp hth hpf hen hop hpc
      | done => exact absurd hpc hdone
      | readP => simp [kvFacts, hpc, hop] at hf
      | wb a b => simp [kvFacts, hpc, hop] at hf
      | exP => simp [kvFacts, hpc, hop] at hf
      | writeC a b c => simp [kvFacts, hpc, hop] at hf
      | write a b => simp [kvFacts, hpc] at hf
      | expW a b c => simp [kvFacts, hpc] at hf

theorem stepCfg_now (V : Variant) (R : Route) (cfg : Cfg) (e : Entry) : (stepCfg V R cfg e).now = cfg.now + 1 := by
  rcases stepCfg_cases V R cfg e with heq | ⟨_, _, heq⟩ | ⟨_, _, _, _, heq⟩ <;> rw [heq]

theorem finv_run (R : Route) (hck : R.ck ≠ .persistent) (hpp : R.pe = true → R.passErr = false)
    (init : Option Val) (sch : List Entry) (hpf : ∀ e ∈ sch, PFault e.fault) (hev : ∀ e ∈ sch, EvictOK R e)
    (cfg : Cfg) (hn : Nodes0 cfg) (hnow : 1 ≤ cfg.now)
    (h : FInv R init cfg) : FInv R init (run .repaired R cfg sch) := by
  induction sch generalizing cfg with
  | nil => exact h
  | cons e rest ih =>
    exact ih (fun e' he' => hpf e' (List.mem_cons_of_mem _ he')) (fun e' he' => hev e' (List.mem_cons_of_mem _ he')) _
      (nodes0_stepCfg R cfg e hn)
      (by rw [stepCfg_now]; omega)
      (finv_stepCfg R hck hpp init cfg e (hpf e (List.mem_cons_self ..)) (hev e (List.mem_cons_self ..)) hn hnow h)


theorem isKV_op {o : Op} (h : isKV o = true) (hw : o ≠ .wbk) : isKVop o := by
  cases o <;> simp [isKV] at h
  · exact Or.inl rfl
  · exact Or.inr (Or.inl rfl)
  · exact Or.inr (Or.inr (Or.inl ⟨_, _, rfl⟩))
  · exact Or.inr (Or.inr (Or.inr rfl))
  · exact absurd rfl hw

theorem curVal_eq_curCell (R : Route) (σ : St) : curVal R σ = (curCell R σ).val := by
  unfold curVal curCell; split <;> rfl

theorem finv_init (R : Route) (hpp : R.pe = true → R.passErr = false) (c s p : Option Val) (ops : List Op)
    (hco : coherent R c s p = true) (hall : ∀ o ∈ ops, isKVop o) :
    FInv R (initVal R c s p) (initCfg c s p ops) := by
  have hcur : (curCell R (initCfg c s p ops).st).val = initVal R c s p := by
    rw [← curVal_eq_curCell]; exact (initVal_eq_curVal R hpp c s p hco).symm
  have hth : ∀ (i : Nat) (t : Thread), (initCfg c s p ops).threads[i]? = some t →
      ∃ o ∈ ops, t = { op := o } := by
    intro i t ht
    simp only [initCfg, List.getElem?_map] at ht
    cases ho : ops[i]? with
    | none => simp [ho] at ht
    | some o =>
      simp [ho] at ht
      exact ⟨o, List.mem_of_getElem? ho, ht.symm⟩
  have hver0 : ∀ t : Tier, ((initCfg c s p ops).st.cell t).ver = 0 := by
    intro t; cases t <;> rfl
  have hcv : (curCell R (initCfg c s p ops).st).ver = 0 := by
    unfold curCell; split
    · rfl
    · exact hver0 _
  constructor
  · intro i t ht; obtain ⟨o, ho, rfl⟩ := hth i t ht; exact hall o ho
  · intro i t ht; obtain ⟨o, _, rfl⟩ := hth i t ht
    exact ⟨fun a ha => by simp at ha, fun b hb => by simp at hb, fun a ha => by simp at ha⟩
  · intro i t ht; obtain ⟨o, _, rfl⟩ := hth i t ht; simp [kvFacts]
  · intro i t ht hcs; obtain ⟨o, _, rfl⟩ := hth i t ht; simp [inCS] at hcs
  · intro i hi; simp [initCfg] at hi
  · intro _ _; exact Or.inr (hver0 _)
  · exact hcv
  · left; exact ⟨rfl, hcur⟩
  · intro hpe v hv
    rw [hver0]
    refine ⟨Or.inl ⟨rfl, ?_⟩, Nat.le_refl _⟩
    have hcoh := (coherent_iff R c s p).1 hco hpe
    have hv' : ((St0 c s p).cell R.ck).val = some v := hv
    rcases hcoh with h1 | h1
    · rw [hv'] at h1; cases h1
    · rw [← hcur, curCell_pe hpe]
      show some v = (St0 c s p).p.val
      rw [← h1, hv']
  · intro i t ht n hn; obtain ⟨o, _, rfl⟩ := hth i t ht; simp at hn
  · intro i j t u n ht _ hn; obtain ⟨o, _, rfl⟩ := hth i t ht; simp at hn
  · intro i t ht m hm; obtain ⟨o, _, rfl⟩ := hth i t ht; simp at hm
  · intro i j r w hr _ m a b n hm; obtain ⟨o, _, rfl⟩ := hth i r hr; simp at hm
  · intro i j r w hr _ m a b hm; obtain ⟨o, _, rfl⟩ := hth i r hr; simp at hm
  · intro i j w w' hw _ n n' b a hres; obtain ⟨o, _, rfl⟩ := hth i w hw; simp at hres

/-! ### From the invariant to `holdsFresh` -/

def toObs (t : Thread) : ThObs := ⟨t.op, t.inv.getD 0, t.ret.getD 0, t.res⟩

theorem obsOf_ths (R : Route) (cfg : Cfg) : (obsOf R cfg).ths = cfg.threads.map toObs := rfl

def initCand (init : Option Val) : Cand := ⟨init, 0, some 0⟩

theorem candOf_writer {t : Thread} (hw : isW t.op) {a : Nat} (ha : t.inv = some a) (ha1 : 1 ≤ a)
    (hne : t.res ≠ some .err) :
    candOf (toObs t) = some ⟨wval t.op, a, okRet (toObs t)⟩ := by
  unfold candOf toObs
  have : (a == 0) = false := by simp; omega
  rcases hw with ⟨v, tt, hop⟩ | hop <;> simp [ha, hop, wval, this, hne]

theorem cand_cases {init : Option Val} {ths : List Thread} {w' : Cand}
    (h : w' ∈ cands init (ths.map toObs)) :
    w' = initCand init ∨ ∃ t ∈ ths, isW t.op ∧ t.inv.getD 0 ≠ 0 ∧
      w' = ⟨wval t.op, t.inv.getD 0, okRet (toObs t)⟩ := by
  unfold cands at h
  rcases List.mem_cons.1 h with h | h
  · exact Or.inl h
  · right
    obtain ⟨o, ho, hc⟩ := List.mem_filterMap.1 h
    obtain ⟨t, ht, rfl⟩ := List.mem_map.1 ho
    refine ⟨t, ht, ?_⟩
    unfold candOf toObs at hc
    simp only at hc
    by_cases h0 : (t.inv.getD 0 == 0) = true
    · simp [h0] at hc
    · simp only [h0] at hc
      have h0' : t.inv.getD 0 ≠ 0 := by simpa using h0
      cases hop : t.op <;> simp [hop] at hc
      · exact ⟨Or.inl ⟨_, _, rfl⟩, h0', by rw [← hc.2]; simp [wval, toObs, hop]⟩
      · exact ⟨Or.inr rfl, h0', by rw [← hc]; simp [wval, toObs, hop]⟩

theorem okRet_some {t : Thread} {b : Nat} (h : okRet (toObs t) = some b) :
    t.res = some .ok ∧ t.ret.getD 0 = b := by
  unfold okRet toObs at h
  by_cases hr : (t.res == some Res.ok) = true
  · simp only [hr, if_true] at h
    exact ⟨by simpa using hr, Option.some.inj h⟩
  · simp [hr] at h

/-- A read that saw version `m` (content `v`), fresh w.r.t. the writes that had returned before index `a`
and whose owner had started by index `b`, is explained by an admissible candidate. -/
theorem explain {R : Route} {init : Option Val} {cfg : Cfg} (h : FInv R init cfg) {a b m : Nat} {v : Option Val}
    (hVV : VV cfg.threads init m v)
    (hfresh : ∀ (j : Nat) (w : Thread) (n bw : Nat), cfg.threads[j]? = some w → w.res = some .ok →
      w.ret = some bw → w.cver = some n → bw < a → n ≤ m)
    (howner : ∀ (j : Nat) (w : Thread) (aw : Nat), cfg.threads[j]? = some w → w.cver = some m →
      w.inv = some aw → aw ≤ b) :
    ∃ w ∈ cands init (cfg.threads.map toObs), w.val = v ∧
      admissible (cands init (cfg.threads.map toObs)) w a b = true := by
  -- facts about returned successful writers
  have hdoneok : ∀ (t : Thread), t ∈ cfg.threads → t.res = some .ok →
      ∃ n bw, t.cver = some n ∧ t.ret = some bw ∧ 1 ≤ n := by
    intro t ht hok
    obtain ⟨j, hj⟩ := List.mem_iff_getElem?.1 ht
    have hf := h.facts j t hj
    unfold kvFacts at hf
    cases hpc : t.pc <;> simp [hpc, hok] at hf
    obtain ⟨_, hr, hc, _⟩ := hf
    cases hcv : t.cver with
    | none => simp [hcv] at hc
    | some n =>
      cases hrt : t.ret with
      | none => simp [hrt] at hr
      | some bw => exact ⟨n, bw, rfl, rfl, (h.cvr j t hj n hcv).1⟩
  rcases hVV with ⟨hm0, hv⟩ | ⟨j, t, hj, hcv, hv⟩
  · -- the initial content
    refine ⟨initCand init, List.mem_cons_self .., hv.symm, ?_⟩
    simp only [admissible, initCand, Bool.and_eq_true, decide_eq_true_eq, Bool.not_eq_true']
    refine ⟨by simp, ?_⟩
    unfold stale
    rw [List.any_eq_false]
    intro w' hw'
    rcases cand_cases hw' with rfl | ⟨t', ht', _, _, rfl⟩
    · simp [initCand]
    · simp only
      cases hok : okRet (toObs t') with
      | none => simp
      | some b' =>
        obtain ⟨hres, hb'⟩ := okRet_some hok
        obtain ⟨n, bw, hn, hbw, hn1⟩ := hdoneok t' ht' hres
        obtain ⟨j', hj'⟩ := List.mem_iff_getElem?.1 ht'
        simp only [Bool.and_eq_true, decide_eq_true_eq, not_and]
        intro _ hlt
        rw [hbw] at hb'
        simp at hb'
        subst hb'
        have := hfresh j' t' n bw hj' hres hbw hn hlt
        omega
  · -- the owner of version m
    have hW := (h.cvr j t hj m hcv).2.2
    have hinvsome : ∃ aw, t.inv = some aw := by
      have hf := h.facts j t hj
      unfold kvFacts at hf
      cases hpc : t.pc <;> simp [hpc, hcv] at hf
      · cases hti : t.inv with
        | none => simp [hti] at hf
        | some aw => exact ⟨aw, rfl⟩
      · cases hti : t.inv with
        | none => simp [hti] at hf
        | some aw => exact ⟨aw, rfl⟩
    obtain ⟨aw, haw⟩ := hinvsome
    have haw1 : 1 ≤ aw := ((h.time j t hj).1 aw haw).1
    have hnerr : t.res ≠ some .err := by
      have hf := h.facts j t hj
      unfold kvFacts at hf
      intro herr
      cases hpc : t.pc <;> simp [hpc, hcv, herr] at hf
    have hcand := candOf_writer hW haw haw1 hnerr
    have hmem : (⟨wval t.op, aw, okRet (toObs t)⟩ : Cand) ∈ cands init (cfg.threads.map toObs) := by
      unfold cands
      refine List.mem_cons_of_mem _ (List.mem_filterMap.2 ⟨toObs t, ?_, hcand⟩)
      exact List.mem_map.2 ⟨t, List.mem_of_getElem? hj, rfl⟩
    refine ⟨_, hmem, hv.symm, ?_⟩
    simp only [admissible, Bool.and_eq_true, decide_eq_true_eq, Bool.not_eq_true']
    refine ⟨by simpa using howner j t aw hj hcv haw, ?_⟩
    unfold stale
    rw [List.any_eq_false]
    intro w' hw'
    simp only
    cases hokt : okRet (toObs t) with
    | none => simp
    | some bt =>
      obtain ⟨hrest, hbt⟩ := okRet_some hokt
      obtain ⟨_, bwt, _, hbwt, _⟩ := hdoneok t (List.mem_of_getElem? hj) hrest
      rw [hbwt] at hbt; simp at hbt; subst hbt
      rcases cand_cases hw' with rfl | ⟨t', ht', _, hinv0, rfl⟩
      · simp [initCand]
      · simp only
        cases hok : okRet (toObs t') with
        | none => simp
        | some b' =>
          obtain ⟨hres, hb'⟩ := okRet_some hok
          obtain ⟨n', bw', hn', hbw', _⟩ := hdoneok t' ht' hres
          obtain ⟨j', hj'⟩ := List.mem_iff_getElem?.1 ht'
          rw [hbw'] at hb'; simp at hb'; subst hb'
          simp only [Bool.and_eq_true, decide_eq_true_eq, not_and]
          intro hlt1 hlt2
          cases hti' : t'.inv with
          | none => simp [hti'] at hinv0
          | some a' =>
            simp only [hti', Option.getD_some] at hlt1
            have h1 := h.order j j' t t' hj hj' m n' bwt a' hrest hbwt hcv hn' hti' hlt1
            have h2 := hfresh j' t' n' bw' hj' hres hbw' hn' hlt2
            omega

theorem le_foldl_max (l : List ThObs) (m0 : Nat) :
    m0 ≤ l.foldl (fun m t => max m t.ret) m0 ∧ ∀ t ∈ l, t.ret ≤ l.foldl (fun m t => max m t.ret) m0 := by
  induction l generalizing m0 with
  | nil => exact ⟨Nat.le_refl _, fun t ht => by cases ht⟩
  | cons x xs ih =>
    simp only [List.foldl_cons]
    obtain ⟨h1, h2⟩ := ih (max m0 x.ret)
    refine ⟨Nat.le_trans (Nat.le_max_left _ _) h1, ?_⟩
    intro t ht
    rcases List.mem_cons.1 ht with rfl | ht
    · exact Nat.le_trans (Nat.le_max_right _ _) h1
    · exact h2 t ht

/-- Every recorded read of the final configuration is explained. -/
theorem read_explained {R : Route} {init : Option Val} {cfg : Cfg} (h : FInv R init cfg) {j : Nat} {t : Thread}
    (ht : cfg.threads[j]? = some t) {m : Nat} (hrv : t.rver = some m) :
    ∃ v, t.res = some (resOf t.op v) ∧ (t.op = .get ∨ t.op = .ex) ∧
      ∃ w ∈ cands init (cfg.threads.map toObs), w.val = v ∧
        admissible (cands init (cfg.threads.map toObs)) w (t.inv.getD 0) (t.ret.getD 0) = true := by
  obtain ⟨_, v, hvv, hres, hop⟩ := h.rd j t ht m hrv
  have hf := h.facts j t ht
  have hdone : t.inv.isSome = true ∧ t.ret.isSome = true := by
    unfold kvFacts at hf
    cases hpc : t.pc <;> simp [hpc, hrv] at hf
    exact ⟨hf.2.1, hf.2.2.1⟩
  cases hti : t.inv with
  | none => simp [hti] at hdone
  | some a =>
    cases htr : t.ret with
    | none => simp [htr] at hdone
    | some b =>
      refine ⟨v, hres, hop, ?_⟩
      simp only [Option.getD_some]
      exact explain h hvv
        (fun j' w n bw hw hres' hret hcv hlt => h.fresh j j' t w ht hw m a bw n hrv hti hres' hret hcv hlt)
        (fun j' w aw hw hcv hinv => h.owner j j' t w ht hw m aw b hrv hcv hinv htr)

theorem any_of_explained {cs : List Cand} {a b : Nat} {f : Cand → Bool} {v : Option Val}
    (hex : ∃ w ∈ cs, w.val = v ∧ admissible cs w a b = true) (hf : ∀ w : Cand, w.val = v → f w = true) :
    cs.any (fun w => f w && admissible cs w a b) = true := by
  obtain ⟨w, hw, hv, had⟩ := hex
  exact List.any_eq_true.2 ⟨w, hw, by simp [hf w hv, had]⟩

theorem readOk_thread {R : Route} {init : Option Val} {cfg : Cfg} (h : FInv R init cfg) {j : Nat} {t : Thread}
    (ht : cfg.threads[j]? = some t) :
    readOk (cands init (cfg.threads.map toObs)) (toObs t) = true := by
  have hf := h.facts j t ht
  -- a returned read has recorded its version unless it failed
  have hrv : ∀ r, t.res = some r → (t.op = .get ∨ t.op = .ex) → r ≠ .err → ∃ m, t.rver = some m := by
    intro r hr hop hne
    unfold kvFacts at hf
    cases hpc : t.pc <;> simp [hpc, hr] at hf
    cases hrvv : t.rver with
    | some m => exact ⟨m, rfl⟩
    | none =>
      rcases hf.2.2.2.1 hrvv with hw | he
      · rcases hop with hop | hop <;> rcases hw with ⟨_, _, hw⟩ | hw <;> rw [hop] at hw <;> cases hw
      · exact absurd he hne
  unfold readOk toObs
  simp only
  cases hop : t.op <;> try rfl
  · -- get
    cases hres : t.res with
    | none => rfl
    | some r =>
      cases r <;> try rfl
      · rename_i v
        obtain ⟨m, hm⟩ := hrv _ hres (Or.inl hop) (by simp)
        obtain ⟨v', hres', _, hex⟩ := read_explained h ht hm
        rw [hres, hop] at hres'
        have hv' : v' = some v := by
          cases v' <;> simp [resOf] at hres'
          exact congrArg some hres'.symm
        subst hv'
        exact any_of_explained hex (fun w hw => by simp [hw])
      · obtain ⟨m, hm⟩ := hrv _ hres (Or.inl hop) (by simp)
        obtain ⟨v', hres', _, hex⟩ := read_explained h ht hm
        rw [hres, hop] at hres'
        have hv' : v' = none := by
          cases v' <;> simp [resOf] at hres'
          rfl
        subst hv'
        exact any_of_explained hex (fun w hw => by simp [hw])
  · -- exists
    cases hres : t.res with
    | none => rfl
    | some r =>
      cases r <;> try rfl
      rename_i b
      obtain ⟨m, hm⟩ := hrv _ hres (Or.inr hop) (by simp)
      obtain ⟨v', hres', _, hex⟩ := read_explained h ht hm
      rw [hres, hop] at hres'
      have hb : b = v'.isSome := by simpa [resOf] using hres'
      subst hb
      exact any_of_explained hex (fun w hw => by simp [hw])

/-- The sequential `Get` after the run is explained too. -/
theorem readOk_final {R : Route} (hpp : R.pe = true → R.passErr = false) {init : Option Val} {cfg : Cfg}
    (h : FInv R init cfg) :
    readOk (cands init (cfg.threads.map toObs))
      (finalRead (cfg.threads.map toObs) (finalGet R cfg.st)) = true := by
  have hT := le_foldl_max (cfg.threads.map toObs) 0
  -- owners had started before the final read
  have howner : ∀ (m : Nat) (j : Nat) (w : Thread) (aw : Nat), cfg.threads[j]? = some w → w.cver = some m →
      w.inv = some aw → aw ≤ (cfg.threads.map toObs).foldl (fun m t => max m t.ret) 0 + 1 := by
    intro m j w aw hw _ hinv
    obtain ⟨bw, hret, hle⟩ := (h.time j w hw).2.2 aw hinv
    have := hT.2 (toObs w) (List.mem_map.2 ⟨w, List.mem_of_getElem? hw, rfl⟩)
    simp only [toObs, hret, Option.getD_some] at this
    omega
  have hcvN : ∀ (j : Nat) (w : Thread) (n bw : Nat), cfg.threads[j]? = some w → w.res = some .ok →
      w.ret = some bw → w.cver = some n →
      bw < (cfg.threads.map toObs).foldl (fun m t => max m t.ret) 0 + 1 → n ≤ cfg.st.nver :=
    fun j w n _ hw _ _ hn _ => (h.cvr j w hw n hn).2.1
  unfold finalRead readOk
  simp only
  unfold finalGet
  cases hcc : (cfg.st.cell R.ck).val with
  | some v =>
    simp only
    obtain ⟨hsrc, hvv, _⟩ := src_ck h hcc
    have hex := explain h (a := (cfg.threads.map toObs).foldl (fun m t => max m t.ret) 0 + 1)
      (b := (cfg.threads.map toObs).foldl (fun m t => max m t.ret) 0 + 1) hvv
      (fun j w n _ hw hres _ hn _ => hsrc j w n hw hres hn) (howner _)
    exact any_of_explained hex (fun w hw => by simp [hw])
  | none =>
    simp only
    by_cases hc : (R.pe && !R.passErr) = true
    · simp only [hc, if_true]
      have hpe : R.pe = true := by simp at hc; exact hc.1
      have hval := h.curval
      rw [curCell_pe hpe] at hval
      have hex := explain h (a := (cfg.threads.map toObs).foldl (fun m t => max m t.ret) 0 + 1)
        (b := (cfg.threads.map toObs).foldl (fun m t => max m t.ret) 0 + 1) hval hcvN (howner _)
      cases hp : cfg.st.p.val with
      | some v =>
        simp only
        rw [hp] at hex
        exact any_of_explained hex (fun w hw => by simp [hw])
      | none =>
        simp only
        rw [hp] at hex
        exact any_of_explained hex (fun w hw => by simp [hw])
    · simp only [hc]
      have hpe : R.pe = false := by
        cases hq : R.pe with
        | false => rfl
        | true => simp [hq, hpp hq] at hc
      have hval := h.curval
      rw [curCell_npe hpe, hcc] at hval
      have hex := explain h (a := (cfg.threads.map toObs).foldl (fun m t => max m t.ret) 0 + 1)
        (b := (cfg.threads.map toObs).foldl (fun m t => max m t.ret) 0 + 1) hval hcvN (howner _)
      exact any_of_explained hex (fun w hw => by simp [hw])

theorem fresh_main (R : Route) (c s p : Option Val) (ops : List Op) (sch : List Entry)
    (hck : R.ck ≠ .persistent) (hpp : R.pe = true → R.passErr = false) (hops : ∀ o ∈ ops, o ≠ .wbk)
    (hf : ∀ e ∈ sch, e.fault = none ∨ e.fault = some .persistent) (hev : ∀ e ∈ sch, EvictOK R e)
    (hco : coherent R c s p = true) :
    holdsFresh (initVal R c s p) (model .repaired R c s p ops sch).ths
      (model .repaired R c s p ops sch).fget = true := by
  unfold holdsFresh
  cases hall : (model .repaired R c s p ops sch).ths.all (fun t => isKV t.op) with
  | false => rfl
  | true =>
    simp only [Bool.not_true, Bool.false_or, Bool.and_eq_true]
    have hopsEq := run_ops_repaired R sch (initCfg c s p ops)
    have hallops : ∀ o ∈ ops, isKVop o := by
      intro o ho
      have : o ∈ (run .repaired R (initCfg c s p ops) sch).threads.map (·.op) := by
        rw [hopsEq]; simp [initCfg, List.map_map]; exact ho
      obtain ⟨t, ht, rfl⟩ := List.mem_map.1 this
      simp only [model, obsOf, List.all_eq_true, List.mem_map] at hall
      exact isKV_op (hall _ ⟨t, ht, rfl⟩) (hops _ ho)
    have hinv := finv_run R hck hpp _ sch hf hev _ (nodes0_init c s p ops) (by simp [initCfg])
      (finv_init R hpp c s p ops hco hallops)
    have hths : (model .repaired R c s p ops sch).ths =
        (run .repaired R (initCfg c s p ops) sch).threads.map toObs := rfl
    have hfg : (model .repaired R c s p ops sch).fget =
        finalGet R (run .repaired R (initCfg c s p ops) sch).st := rfl
    rw [hths, hfg]
    refine ⟨?_, readOk_final hpp hinv⟩
    rw [List.all_eq_true]
    intro r hr
    obtain ⟨t, ht, rfl⟩ := List.mem_map.1 hr
    obtain ⟨j, hj⟩ := List.mem_iff_getElem?.1 ht
    exact readOk_thread hinv hj


end Tunnox.C14
