import TunnoxModel.Spec.C09
/-!
# C09 — helper lemmas

1. side conditions on the regenerated tables (closed by `decide`);
2. the record codec round-trips (also through the `float64` detour when the integers are ≤ 2^53);
3. the two key families are injective and disjoint;
4. the tiered store sends both key families to the shared cache;
5. the simulation invariant between the storage world and the specification state.
-/
set_option linter.unusedSimpArgs false
set_option linter.unusedVariables false
namespace Tunnox.C09
open Gen Tunnox.PredPrelude

/-! ## 1. Regenerated tables -/

theorem fields_ok : C09.WaitingState_fields =
    [("TunnelID", "string", "tunnel_id"), ("MappingID", "string", "mapping_id"), ("SecretKey", "string", "secret_key"),
     ("SourceNodeID", "string", "source_node_id"), ("SourceClientID", "int64", "source_client_id"),
     ("TargetClientID", "int64", "target_client_id"), ("TargetHost", "string", "target_host"),
     ("TargetPort", "int", "target_port"), ("CreatedAt", "time.Time", "created_at"),
     ("ExpiresAt", "time.Time", "expires_at")] := by decide

theorem codecFields_eq : codecFields = C09.WaitingState_fields := by decide

/-- Every value shape a backend (or double) can hand back is a case of the type switch. -/
theorem shapes_handled :
    ["*WaitingState", "string", "[]byte", "map[string]interface{}"].all
      (fun s => C09.LookupWaitingTunnel_cases.contains s) = true := by decide

theorem tableTTL_pos (cfg : Cfg) (n : Nat) : tableTTL cfg n ≠ 0 := by
  unfold tableTTL
  split
  · decide
  · rename_i h; simpa using h

theorem nodeAddrTTL_pos : nodeAddrTTL ≠ 0 := by decide

/-! ## 2. Codec -/

theorem encodeRec_eq (r : Rec) : encodeRec r =
    [("tunnel_id", .str r.tunnelID), ("mapping_id", .str r.mappingID), ("secret_key", .str r.secretKey),
     ("source_node_id", .str r.sourceNodeID), ("source_client_id", .num r.sourceClientID),
     ("target_client_id", .num r.targetClientID), ("target_host", .str r.targetHost),
     ("target_port", .num r.targetPort), ("created_at", .time r.createdAt), ("expires_at", .time r.expiresAt)] := by
  simp [encodeRec, codecFields_eq, fields_ok, jsonKey, fieldJ]

theorem inInt64_iff (n : Int) : inInt64 n = true ↔ int64Min ≤ n ∧ n ≤ int64Max := by
  simp [inInt64]

/-- `json.Unmarshal(json.Marshal(r)) = r` for every record whose integers are `int64` values. -/
theorem decode_encode (r : Rec) (h1 : inInt64 r.sourceClientID = true) (h2 : inInt64 r.targetClientID = true)
    (h3 : inInt64 r.targetPort = true) : decodeRec (encodeRec r) = some r := by
  rw [inInt64_iff] at h1 h2 h3
  rw [encodeRec_eq]
  simp [decodeRec, getField, codecFields_eq, fields_ok, jsonKey, List.lookup, decStr, decInt, decTime,
    h1.1, h1.2, h2.1, h2.2, h3.1, h3.2]

theorem roundF64_exact (n : Int) (h : exactF64 n = true) : roundF64 n = n := by
  simp only [exactF64, decide_eq_true_eq] at h
  simp [roundF64, h]

/-- The `float64` detour is the identity on records whose integers are ≤ 2^53 in absolute value. -/
theorem toMap_encode (r : Rec) (h1 : exactF64 r.sourceClientID = true) (h2 : exactF64 r.targetClientID = true)
    (h3 : exactF64 r.targetPort = true) : toMap (encodeRec r) = encodeRec r := by
  rw [encodeRec_eq]
  simp [toMap, viaFloat, roundF64_exact _ h1, roundF64_exact _ h2, roundF64_exact _ h3]

/-! ## 3. Keys -/

theorem str_append_left_inj (p a b : String) (h : p ++ a = p ++ b) : a = b := by
  have h1 := congrArg String.toList h
  rw [String.toList_append, String.toList_append] at h1
  exact String.toList_inj.mp (List.append_cancel_left h1)

theorem str_append_right_inj (a b q : String) (h : a ++ q = b ++ q) : a = b := by
  have h1 := congrArg String.toList h
  rw [String.toList_append, String.toList_append] at h1
  exact String.toList_inj.mp (List.append_cancel_right h1)

theorem makeKey_inj {a b : String} (h : C09.makeKey a = C09.makeKey b) : a = b :=
  str_append_left_inj "tunnox:tunnel_waiting:" a b h

theorem nodeKey_inj {a b : String} (h : C09.GetNodeAddress_key a = C09.GetNodeAddress_key b) : a = b :=
  str_append_left_inj "tunnox:node:" a b (str_append_right_inj ("tunnox:node:" ++ a) ("tunnox:node:" ++ b) ":addr" h)

theorem nodeKey_same (nid : String) : C09.RegisterNodeAddress_key nid = C09.GetNodeAddress_key nid := by
  unfold C09.RegisterNodeAddress_key C09.GetNodeAddress_key
  rfl

theorem str_ne_of_take (n : Nat) (p q a b : String) (hp : n ≤ p.toList.length) (hq : n ≤ q.toList.length)
    (hne : p.toList.take n ≠ q.toList.take n) : p ++ a ≠ q ++ b := by
  intro h
  have h1 := congrArg (fun s => s.toList.take n) h
  simp only [String.toList_append] at h1
  rw [List.take_append_of_le_length hp, List.take_append_of_le_length hq] at h1
  exact hne h1

/-- A waiting-tunnel key is never a node-address key, whatever the ids are. -/
theorem makeKey_ne_nodeKey (tid nid : String) : C09.makeKey tid ≠ C09.GetNodeAddress_key nid := by
  have h := str_ne_of_take 8 "tunnox:tunnel_waiting:" "tunnox:node:" tid (nid ++ ":addr") (by decide) (by decide) (by decide)
  intro h'
  apply h
  rw [← String.append_assoc]
  exact h'

/-! ## 4. Tiered store: both key families are *shared* data -/

theorem not_prefix_of_diverge {p pre t : List Char} (h1 : ¬ p <+: pre) (h2 : ¬ pre <+: p) : ¬ p <+: pre ++ t := by
  intro h
  rcases List.prefix_or_prefix_of_prefix h (List.prefix_append pre t) with h' | h'
  · exact h1 h'
  · exact h2 h'

/-- A key that starts with a shared prefix which diverges from every shared-persistent prefix is
of category *shared*, and `getCacheForKey` picks the shared cache when there is one. -/
theorem hybridIdx_of_prefix (pre : String) (hmem : pre ∈ C09.DefaultConfig_SharedPrefixes)
    (hdiv : C09.DefaultConfig_SharedPersistentPrefixes.all
      (fun p => !(p.toList.isPrefixOf pre.toList) && !(pre.toList.isPrefixOf p.toList)) = true)
    (hs : Bool) (n : Nat) (key : String) (t : List Char) (hk : key.toList = pre.toList ++ t) :
    hybridIdx hs n key = some (if hs then 0 else n + 1) := by
  have hshared : hybrid.Storage.isShared defaultHybrid key = true := by
    simp only [hybrid.Storage.isShared, defaultHybrid]
    have : (C09.DefaultConfig_SharedPrefixes.any fun p => hasPrefix key p) = true := by
      rw [List.any_eq_true]
      refine ⟨pre, hmem, ?_⟩
      simp only [hasPrefix, hk]
      exact List.isPrefixOf_iff_prefix.mpr (List.prefix_append _ _)
    simp [this]
  have hsp : hybrid.Storage.isSharedPersistent defaultHybrid key = false := by
    simp only [hybrid.Storage.isSharedPersistent, defaultHybrid]
    have : (C09.DefaultConfig_SharedPersistentPrefixes.any fun p => hasPrefix key p) = false := by
      rw [List.any_eq_false]
      intro p hp hpre
      have hd := (List.all_eq_true.mp hdiv) p hp
      simp only [Bool.and_eq_true, Bool.not_eq_true', ← Bool.not_eq_true, List.isPrefixOf_iff_prefix] at hd
      simp only [hasPrefix, hk] at hpre
      exact not_prefix_of_diverge hd.1 hd.2 (List.isPrefixOf_iff_prefix.mp hpre)
    simp [this]
  have hcat : hybrid.Storage.getCategory defaultHybrid key = hybrid.DataCategoryShared := by
    simp [hybrid.Storage.getCategory, hsp, hshared]
  unfold hybridIdx
  rw [hcat, hshared]
  cases hs <;> simp

theorem hybridIdx_makeKey (hs : Bool) (n : Nat) (tid : String) :
    hybridIdx hs n (C09.makeKey tid) = some (if hs then 0 else n + 1) :=
  hybridIdx_of_prefix "tunnox:tunnel_waiting:" (by decide) (by decide) hs n ("tunnox:tunnel_waiting:" ++ tid) tid.toList
    String.toList_append

theorem hybridIdx_nodeKey (hs : Bool) (n : Nat) (nid : String) :
    hybridIdx hs n (C09.GetNodeAddress_key nid) = some (if hs then 0 else n + 1) :=
  hybridIdx_of_prefix "tunnox:node:" (by decide) (by decide) hs n (("tunnox:node:" ++ nid) ++ ":addr")
    (nid.toList ++ ":addr".toList) (by rw [String.toList_append, String.toList_append, List.append_assoc])

/-! ## 5. Simulation invariant -/

/-- Index of the store that carries the routing data of a well-formed history. -/
def home (b : Backend) : Nat := if b = .hybridLocal then 1 else 0
def homeKind (b : Backend) : SK := storeKind b (home b)

theorem storeIdx_makeKey (b : Backend) (n : Nat) (tid : String) (h : wfNode b n = true) :
    storeIdx b n (C09.makeKey tid) = some (home b) := by
  cases b <;> simp [storeIdx, home, hybridIdx_makeKey] <;> simpa [wfNode] using h

theorem storeIdx_nodeKey (b : Backend) (n : Nat) (nid : String) (h : wfNode b n = true) :
    storeIdx b n (C09.GetNodeAddress_key nid) = some (home b) := by
  cases b <;> simp [storeIdx, home, hybridIdx_nodeKey] <;> simpa [wfNode] using h

def atClock (b : Backend) (wallAt storeAt : Nat) : Nat := if onRedis b then storeAt else wallAt

theorem clockOf_home (b : Backend) (w : World) : clockOf w (homeKind b) = atClock b w.wall w.rclk := by
  cases b <;> simp [clockOf, homeKind, home, storeKind, atClock, onRedis]

theorem homeKind_redis (b : Backend) : (homeKind b == SK.redis) = onRedis b := by
  cases b <;> simp [homeKind, home, storeKind, onRedis] <;> decide

theorem effTTL_pos (b : Backend) (ttl : Nat) (h : ttl ≠ 0) : effTTL b ttl = ttl := by
  cases b <;> simp [effTTL, h]

/-- The record as `RegisterWaitingTunnel` stamps it. -/
def stamp (t : GT) : Rec := { t.data with createdAt := t.wallAt, expiresAt := t.wallAt + t.ttl }

def entryT (b : Backend) (t : GT) : Entry :=
  ⟨onSet (homeKind b) (.ptr (stamp t)), some (atClock b t.wallAt t.storeAt + t.ttl)⟩

def entryA (b : Backend) (a : GA) : Entry :=
  ⟨onSet (homeKind b) (.raw a.addr), some (atClock b a.wallAt a.storeAt + nodeAddrTTL)⟩

/-- Specification entry vs. stored entry of one tunnel id (lookups never write). -/
def RelT (b : Backend) (wall : Nat) : Option GT → Option Entry → Prop
  | some t, some e => e = entryT b t
  | some _, none => False
  | none, none => True
  | none, some _ => False

structure InvS (b : Backend) (w : World) (g : Ghost) : Prop where
  wall : w.wall = g.wall
  rclk : w.rclk = g.rclk
  tun : ∀ tid, RelT b g.wall (g.tunnels tid) (w.stores (home b) (C09.makeKey tid))
  adr : ∀ nid, w.stores (home b) (C09.GetNodeAddress_key nid) = (g.addrs nid).map (entryA b)
  gwf : ∀ tid t, g.tunnels tid = some t → t.ttl ≠ 0 ∧ wfRec b t.data = true
  noEmpty : g.tunnels "" = none

theorem storageSet_home (b : Backend) (w : World) (n : Nat) (key : String) (v : Val) (ttl : Nat)
    (hk : storeIdx b n key = some (home b)) (httl : ttl ≠ 0) :
    storageSet b w n key v ttl =
      some (w.setStore (home b) (skSet (homeKind b) (w.stores (home b)) (atClock b w.wall w.rclk) key v ttl)) := by
  simp [storageSet, hk, effTTL_pos b ttl httl, ← clockOf_home, homeKind]

theorem storageGet_home (b : Backend) (w : World) (n : Nat) (key : String) (hk : storeIdx b n key = some (home b)) :
    storageGet b w n key = some (skGet (homeKind b) (w.stores (home b)) (atClock b w.wall w.rclk) key) := by
  simp [storageGet, hk, ← clockOf_home, homeKind]

theorem storageDelete_home (b : Backend) (w : World) (n : Nat) (key : String) (hk : storeIdx b n key = some (home b)) :
    storageDelete b w n key = some (w.setStore (home b) (skDel (w.stores (home b)) key)) := by
  simp [storageDelete, hk]

theorem setStore_home (w : World) (i : Nat) (kv : KV) : (w.setStore i kv).stores i = kv := by
  simp [World.setStore]

/-- What comes back from the backend decodes to exactly the stamped record. -/
theorem decode_roundtrip (b : Backend) (r : Rec) (h : wfRec b r = true) :
    decodeValue (onGet (homeKind b) (onSet (homeKind b) (.ptr r))) = some r := by
  simp only [wfRec, Bool.and_eq_true, Bool.or_eq_true, bne_iff_ne, ne_eq] at h
  obtain ⟨⟨⟨h1, h2⟩, h3⟩, h4⟩ := h
  have hc1 : "*WaitingState" ∈ C09.LookupWaitingTunnel_cases := by decide
  have hc2 : "string" ∈ C09.LookupWaitingTunnel_cases := by decide
  have hc3 : "[]byte" ∈ C09.LookupWaitingTunnel_cases := by decide
  have hc4 : "map[string]interface{}" ∈ C09.LookupWaitingTunnel_cases := by decide
  cases b
  · simp [homeKind, home, storeKind, onSet, onGet, decodeValue, shapeName, hc1]
  · simp [homeKind, home, storeKind, onSet, onGet, jsonify, decodeValue, shapeName, hc2, decode_encode r h1 h2 h3]
  · simp [homeKind, home, storeKind, onSet, onGet, jsonify, decodeValue, shapeName, hc2, decode_encode r h1 h2 h3]
  · simp [homeKind, home, storeKind, onSet, onGet, decodeValue, shapeName, hc1]
  · have h4' : exactF64 r.sourceClientID = true ∧ exactF64 r.targetClientID = true ∧ exactF64 r.targetPort = true := by
      rcases h4 with h4 | h4
      · exact absurd rfl h4
      · simpa [Bool.and_eq_true, and_assoc] using h4
    simp [homeKind, home, storeKind, onSet, onGet, jsonify, decodeValue, shapeName, hc4,
      toMap_encode r h4'.1 h4'.2.1 h4'.2.2, decode_encode r h1 h2 h3]
  · simp [homeKind, home, storeKind, onSet, onGet, jsonify, decodeValue, shapeName, hc3, decode_encode r h1 h2 h3]

@[simp] theorem setStore_wall (w : World) (i : Nat) (kv : KV) : (w.setStore i kv).wall = w.wall := rfl
@[simp] theorem setStore_rclk (w : World) (i : Nat) (kv : KV) : (w.setStore i kv).rclk = w.rclk := rfl
@[simp] theorem setStore_bridges (w : World) (i : Nat) (kv : KV) : (w.setStore i kv).bridges = w.bridges := rfl
@[simp] theorem setStore_same (w : World) (i : Nat) (kv : KV) : (w.setStore i kv).stores i = kv := by
  simp [World.setStore]

theorem entryLive_entryT (b : Backend) (t : GT) (wall rclk : Nat) :
    entryLive (homeKind b) (atClock b wall rclk) (entryT b t) =
      (if onRedis b then decide (rclk < t.storeAt + t.ttl) else decide (wall ≤ t.wallAt + t.ttl)) := by
  simp only [entryLive, entryT, homeKind_redis]
  cases h : onRedis b <;> simp [atClock, h]

theorem entryLive_entryA (b : Backend) (a : GA) (wall rclk : Nat) :
    entryLive (homeKind b) (atClock b wall rclk) (entryA b a) =
      (if onRedis b then decide (rclk < a.storeAt + nodeAddrTTL) else decide (wall ≤ a.wallAt + nodeAddrTTL)) := by
  simp only [entryLive, entryA, homeKind_redis]
  cases h : onRedis b <;> simp [atClock, h]

/-- `RegisterWaitingTunnel` against the specification state. -/
theorem reg_ok (cfg : Cfg) (w : World) (g : Ghost) (n : Nat) (r : Rec) (hI : InvS cfg.backend w g)
    (hn : wfNode cfg.backend n = true) (hr : wfRec cfg.backend r = true) :
    (registerWaitingTunnel cfg w n r).2 = (if r.tunnelID == "" then Res.errParam else Res.ok) ∧
    InvS cfg.backend (registerWaitingTunnel cfg w n r).1
      (if r.tunnelID == "" then g else setT g r.tunnelID (some ⟨r, tableTTL cfg n, g.wall, g.rclk⟩)) ∧
    (registerWaitingTunnel cfg w n r).1.bridges = w.bridges := by
  by_cases he : r.tunnelID = ""
  · simp [registerWaitingTunnel, he, hI]
  · have hk := storeIdx_makeKey cfg.backend n r.tunnelID hn
    have hset := storageSet_home cfg.backend w n (C09.makeKey r.tunnelID)
      (.ptr { r with createdAt := w.wall, expiresAt := w.wall + tableTTL cfg n }) (tableTTL cfg n) hk (tableTTL_pos cfg n)
    simp only [registerWaitingTunnel, he, beq_iff_eq, if_false, hset]
    refine ⟨trivial, ?_, rfl⟩
    refine ⟨hI.wall, hI.rclk, ?_, ?_, ?_, by simp [setT, Ne.symm he, hI.noEmpty]⟩
    · intro tid
      by_cases ht : tid = r.tunnelID
      · subst ht
        simp only [setT, setStore_same, skSet, if_true, RelT, entryT, stamp, hI.wall, hI.rclk, tableTTL_pos cfg n, if_false]
      · have hne : C09.makeKey tid ≠ C09.makeKey r.tunnelID := fun h => ht (makeKey_inj h)
        simp only [setT, setStore_same, skSet, ht, hne, if_false]
        exact hI.tun tid
    · intro nid
      have hne : C09.GetNodeAddress_key nid ≠ C09.makeKey r.tunnelID := fun h => makeKey_ne_nodeKey _ _ h.symm
      simp only [setT, setStore_same, skSet, hne, if_false]
      exact hI.adr nid
    · intro tid t ht
      by_cases htid : tid = r.tunnelID
      · simp only [setT, htid, if_true, Option.some.injEq] at ht
        subst ht
        exact ⟨tableTTL_pos cfg n, hr⟩
      · simp only [setT, htid, if_false] at ht
        exact hI.gwf tid t ht

/-- `RemoveWaitingTunnel`. -/
theorem rem_ok (cfg : Cfg) (w : World) (g : Ghost) (n : Nat) (tid : String) (hI : InvS cfg.backend w g)
    (hn : wfNode cfg.backend n = true) :
    (removeWaitingTunnel cfg w n tid).2 = (if tid == "" then Res.errParam else Res.ok) ∧
    InvS cfg.backend (removeWaitingTunnel cfg w n tid).1 (if tid == "" then g else setT g tid none) ∧
    (removeWaitingTunnel cfg w n tid).1.bridges = w.bridges := by
  by_cases he : tid = ""
  · simp [removeWaitingTunnel, he, hI]
  · have hk := storeIdx_makeKey cfg.backend n tid hn
    simp only [removeWaitingTunnel, he, beq_iff_eq, if_false, storageDelete_home cfg.backend w n _ hk, Option.getD_some]
    refine ⟨trivial, ?_, rfl⟩
    refine ⟨hI.wall, hI.rclk, ?_, ?_, ?_, by simp [setT, Ne.symm he, hI.noEmpty]⟩
    · intro tid'
      by_cases ht : tid' = tid
      · subst ht
        simp [setT, skDel, RelT]
      · have hne : C09.makeKey tid' ≠ C09.makeKey tid := fun h => ht (makeKey_inj h)
        simp only [setT, setStore_same, skDel, ht, hne, if_false]
        exact hI.tun tid'
    · intro nid
      have hne : C09.GetNodeAddress_key nid ≠ C09.makeKey tid := fun h => makeKey_ne_nodeKey _ _ h.symm
      simp only [setT, setStore_same, skDel, hne, if_false]
      exact hI.adr nid
    · intro tid' t ht
      by_cases htid : tid' = tid
      · simp [setT, htid] at ht
      · simp only [setT, htid, if_false] at ht
        exact hI.gwf tid' t ht

theorem sameData_stamp (t : GT) : sameData t.data (stamp t) t.ttl = true := by
  simp [sameData, stamp]

/-- `LookupWaitingTunnel` evaluated on the home store. -/
theorem lookup_eval (cfg : Cfg) (w : World) (n : Nat) (tid : String) (he : tid ≠ "")
    (hk : storeIdx cfg.backend n (C09.makeKey tid) = some (home cfg.backend)) :
    lookupWaitingTunnel cfg w n tid =
      match w.stores (home cfg.backend) (C09.makeKey tid) with
      | none => (w, .notFound)
      | some e =>
        if entryLive (homeKind cfg.backend) (atClock cfg.backend w.wall w.rclk) e then
          (match decodeValue (onGet (homeKind cfg.backend) e.val) with
           | none => (w, .errInternal)
           | some r => if w.wall > r.expiresAt then (w, .expired) else (w, .found r))
        else (w, .notFound) := by
  simp only [lookupWaitingTunnel, he, beq_iff_eq, if_false, storageGet_home _ _ _ _ hk, skGet]
  cases w.stores (home cfg.backend) (C09.makeKey tid) with
  | none => rfl
  | some e =>
    dsimp only
    by_cases hl : entryLive (homeKind cfg.backend) (atClock cfg.backend w.wall w.rclk) e = true
    · simp only [hl, if_true]
      cases decodeValue (onGet (homeKind cfg.backend) e.val) <;> rfl
    · simp only [hl]
      rfl

/-- A lookup never changes the world. -/
theorem lookup_world (cfg : Cfg) (w : World) (n : Nat) (tid : String) : (lookupWaitingTunnel cfg w n tid).1 = w := by
  unfold lookupWaitingTunnel
  repeat' split
  all_goals rfl

/-- `LookupWaitingTunnel`. -/
theorem look_ok (cfg : Cfg) (w : World) (g : Ghost) (n : Nat) (tid : String) (hI : InvS cfg.backend w g)
    (hn : wfNode cfg.backend n = true) :
    check cfg g (.look n tid) (lookupWaitingTunnel cfg w n tid).2 = true ∧
    InvS cfg.backend (lookupWaitingTunnel cfg w n tid).1 g ∧
    (lookupWaitingTunnel cfg w n tid).1.bridges = w.bridges := by
  rw [lookup_world]
  refine ⟨?_, hI, rfl⟩
  by_cases he : tid = ""
  · subst he
    simp [lookupWaitingTunnel, check, hI.noEmpty, notResolved]
  · have hk := storeIdx_makeKey cfg.backend n tid hn
    have hrel := hI.tun tid
    rw [lookup_eval cfg w n tid he hk]
    simp only [check]
    cases hg : g.tunnels tid with
    | none =>
      cases hs : w.stores (home cfg.backend) (C09.makeKey tid) with
      | none => simp [notResolved]
      | some e => rw [hg, hs] at hrel; exact absurd hrel (by simp [RelT])
    | some t =>
      cases hs : w.stores (home cfg.backend) (C09.makeKey tid) with
      | none => rw [hg, hs] at hrel; exact absurd hrel (by simp [RelT])
      | some e =>
        rw [hg, hs] at hrel
        simp only [RelT] at hrel
        subst hrel
        have hgw := hI.gwf tid t hg
        dsimp only
        rw [entryLive_entryT]
        by_cases hlive : (if onRedis cfg.backend then decide (w.rclk < t.storeAt + t.ttl) else decide (w.wall ≤ t.wallAt + t.ttl)) = true
        · simp only [hlive, if_true]
          have hdec : decodeValue (onGet (homeKind cfg.backend) (entryT cfg.backend t).val) = some (stamp t) :=
            decode_roundtrip cfg.backend (stamp t) (by simpa [stamp, wfRec] using hgw.2)
          simp only [hdec]
          by_cases hexp : w.wall > t.wallAt + t.ttl
          · have hexp' : w.wall > (stamp t).expiresAt := hexp
            simp only [hexp', if_true]
            have : ¬ g.wall ≤ t.wallAt + t.ttl := by rw [← hI.wall]; omega
            simp [liveT, this, notResolved]
          · have hexp' : ¬ w.wall > (stamp t).expiresAt := hexp
            simp only [hexp', if_false]
            have h1 : g.wall ≤ t.wallAt + t.ttl := by rw [← hI.wall]; omega
            have h2 : (!onRedis cfg.backend || decide (g.rclk < t.storeAt + t.ttl)) = true := by
              cases hr : onRedis cfg.backend
              · simp
              · simp only [hr, if_true] at hlive
                simpa [← hI.rclk] using hlive
            simp [liveT, h1, h2, sameData_stamp]
        · simp only [hlive]
          have : liveT cfg.backend g t = false := by
            cases hr : onRedis cfg.backend
            · simp only [hr] at hlive
              simp only [liveT, hr, ← hI.wall]
              simpa using hlive
            · simp only [hr, if_true] at hlive
              simp only [liveT, hr, ← hI.rclk]
              simp at hlive
              simp [hlive]
          simp [this, notResolved]

/-! ### Node addresses -/

theorem regAddr_ok (cfg : Cfg) (w : World) (g : Ghost) (n : Nat) (nid a : String) (hI : InvS cfg.backend w g)
    (hn : wfNode cfg.backend n = true) :
    (registerNodeAddress cfg w n nid a).2 = Res.ok ∧
    InvS cfg.backend (registerNodeAddress cfg w n nid a).1
      { g with addrs := fun k => if k = nid then some ⟨a, g.wall, g.rclk⟩ else g.addrs k } ∧
    (registerNodeAddress cfg w n nid a).1.bridges = w.bridges := by
  have hk := storeIdx_nodeKey cfg.backend n nid hn
  have hset := storageSet_home cfg.backend w n (C09.GetNodeAddress_key nid) (.raw a) nodeAddrTTL hk nodeAddrTTL_pos
  simp only [registerNodeAddress, nodeKey_same, hset]
  refine ⟨trivial, ?_, by first | rfl | trivial⟩
  refine ⟨hI.wall, hI.rclk, ?_, ?_, hI.gwf, hI.noEmpty⟩
  · intro tid
    have hne : C09.makeKey tid ≠ C09.GetNodeAddress_key nid := makeKey_ne_nodeKey _ _
    simp only [setStore_same, skSet, hne, if_false]
    exact hI.tun tid
  · intro nid'
    by_cases hn' : nid' = nid
    · subst hn'
      simp only [setStore_same, skSet, if_true, Option.map, entryA, hI.wall, hI.rclk, nodeAddrTTL_pos, if_false]
    · have hne : C09.GetNodeAddress_key nid' ≠ C09.GetNodeAddress_key nid := fun h => hn' (nodeKey_inj h)
      simp only [setStore_same, skSet, hne, hn', if_false]
      exact hI.adr nid'

theorem addr_shape (b : Backend) (s : String) :
    onGet (homeKind b) (onSet (homeKind b) (.raw s)) = .raw s ∨
    onGet (homeKind b) (onSet (homeKind b) (.raw s)) = .rawBytes s := by
  cases b <;> simp [homeKind, home, storeKind, onSet, onGet, jsonify]

theorem getAddr_ok (cfg : Cfg) (w : World) (g : Ghost) (n : Nat) (nid : String) (hI : InvS cfg.backend w g)
    (hn : wfNode cfg.backend n = true) :
    check cfg g (.getAddr n nid) (getNodeAddress cfg w n nid) = true := by
  have hk := storeIdx_nodeKey cfg.backend n nid hn
  have hadr := hI.adr nid
  simp only [getNodeAddress, storageGet_home _ _ _ _ hk, skGet, check]
  cases hg : g.addrs nid with
  | none =>
    rw [hg] at hadr
    simp only [Option.map] at hadr
    simp [hadr]
  | some a =>
    rw [hg] at hadr
    simp only [Option.map] at hadr
    rw [hadr]
    dsimp only
    rw [entryLive_entryA]
    have hlive : liveA cfg.backend g a =
        (if onRedis cfg.backend then decide (w.rclk < a.storeAt + nodeAddrTTL) else decide (w.wall ≤ a.wallAt + nodeAddrTTL)) := by
      simp [liveA, hI.wall, hI.rclk]
    rw [hlive]
    by_cases hl : (if onRedis cfg.backend then decide (w.rclk < a.storeAt + nodeAddrTTL) else decide (w.wall ≤ a.wallAt + nodeAddrTTL)) = true
    · simp only [hl, if_true]
      rcases addr_shape cfg.backend a.addr with h | h
      · simp only [entryA, h]
        by_cases ha : a.addr = "" <;> simp [ha]
      · simp only [entryA, h]
        by_cases ha : a.addr = "" <;> simp [ha]
    · simp [hl]

/-! ### Forwarding to the source node -/

theorem fwd_ok (cfg : Cfg) (w : World) (g : Ghost) (n : Nat) (tid : String) (hI : InvS cfg.backend w g)
    (hB : w.bridges = g.bridges) (hn : wfNode cfg.backend n = true) :
    check cfg g (.fwd n tid) (forwardTarget cfg w n tid).2 = true ∧
    InvS cfg.backend (forwardTarget cfg w n tid).1 g ∧
    (forwardTarget cfg w n tid).1.bridges = w.bridges := by
  obtain ⟨hl, hI', hb⟩ := look_ok cfg w g n tid hI hn
  have hfst : (forwardTarget cfg w n tid).1 = (lookupWaitingTunnel cfg w n tid).1 := by
    unfold forwardTarget; split <;> rfl
  rw [hfst]
  refine ⟨?_, hI', hb⟩
  unfold forwardTarget
  have hB' : (lookupWaitingTunnel cfg w n tid).1.bridges = g.bridges := hb.trans hB
  generalize lookupWaitingTunnel cfg w n tid = L at hl hI' hB'
  obtain ⟨w', res⟩ := L
  simp only [check] at hl ⊢
  cases hg : g.tunnels tid with
  | none =>
    rw [hg] at hl
    cases res <;> simp_all [notResolved]
  | some t =>
    rw [hg] at hl
    by_cases hlive : liveT cfg.backend g t = true
    · simp only [hlive, if_true] at hl ⊢
      cases res with
      | found r =>
        have hsrc : r.sourceNodeID = t.data.sourceNodeID := by
          simp only [sameData, Bool.and_eq_true, beq_iff_eq] at hl
          exact hl.1.1.1.1.1.2
        have ha := getAddr_ok cfg w' g n r.sourceNodeID hI' hn
        simp only [check, hsrc] at ha
        simp only [hsrc]
        simp only at hB'
        by_cases hloc : (t.data.sourceNodeID == nodeName n) = true
        · simp only [hloc, if_true, hB']
          cases g.bridges n tid <;> simp
        simp only [hloc, Bool.false_eq_true, if_false]
        cases hga : g.addrs t.data.sourceNodeID with
        | none =>
          rw [hga] at ha
          simp only [beq_iff_eq] at ha
          simp [ha]
        | some a =>
          rw [hga] at ha
          by_cases hla : liveA cfg.backend g a = true
          · simp only [hla, if_true] at ha
            by_cases hae : a.addr = ""
            · simp only [hae, bne_self_eq_false, Bool.false_eq_true, if_false, beq_iff_eq] at ha
              simp [ha, hla, hae]
            · have hne : (a.addr != "") = true := by simpa using hae
              simp only [hne, if_true, beq_iff_eq] at ha
              simp [ha, hla, hne]
          · simp only [hla, Bool.false_eq_true, if_false, beq_iff_eq] at ha
            simp [ha, hla]
      | _ => simp at hl
    · simp only [hlive, Bool.false_eq_true, if_false] at hl ⊢
      cases res <;> simp_all [notResolved]

/-! ### Polling lookup -/

theorem lookup_empty (cfg : Cfg) (w : World) (n : Nat) : lookupWaitingTunnel cfg w n "" = (w, .errParam) := by
  simp [lookupWaitingTunnel]

theorem lookup_ne_errParam (cfg : Cfg) (w : World) (n : Nat) (tid : String) (he : tid ≠ "")
    (hk : storeIdx cfg.backend n (C09.makeKey tid) = some (home cfg.backend)) :
    (lookupWaitingTunnel cfg w n tid).2 ≠ .errParam := by
  rw [lookup_eval cfg w n tid he hk]
  repeat' split
  all_goals simp

/-- What a single lookup answers, in terms of the specification state. -/
theorem look_by_spec (cfg : Cfg) (w : World) (g : Ghost) (n : Nat) (tid : String) (hI : InvS cfg.backend w g)
    (hn : wfNode cfg.backend n = true) :
    (∀ t, liveReg cfg g tid = some t → isFoundAs t (lookupWaitingTunnel cfg w n tid).2 = true) ∧
    (liveReg cfg g tid = none → tid ≠ "" →
      (lookupWaitingTunnel cfg w n tid).2 = .notFound ∨ (lookupWaitingTunnel cfg w n tid).2 = .expired) := by
  obtain ⟨hl, _, _⟩ := look_ok cfg w g n tid hI hn
  simp only [check] at hl
  constructor
  · intro t ht
    simp only [liveReg] at ht
    cases hg : g.tunnels tid with
    | none => simp [hg] at ht
    | some t' =>
      rw [hg] at ht hl
      by_cases hlv : liveT cfg.backend g t' = true
      · simp only [hlv, if_true, Option.some.injEq] at ht hl
        subst ht
        cases hres : (lookupWaitingTunnel cfg w n tid).2 <;> simp_all [isFoundAs]
      · simp [hlv] at ht
  · intro hnone he
    have hne := lookup_ne_errParam cfg w n tid he (storeIdx_makeKey cfg.backend n tid hn)
    have hnr : notResolved (lookupWaitingTunnel cfg w n tid).2 = true := by
      simp only [liveReg] at hnone
      cases hg : g.tunnels tid with
      | none => simpa [hg] using hl
      | some t' =>
        rw [hg] at hnone hl
        by_cases hlv : liveT cfg.backend g t' = true
        · simp [hlv] at hnone
        · simpa [hlv] using hl
    cases hres : (lookupWaitingTunnel cfg w n tid).2 <;> simp_all [notResolved]

theorem poll_ok (cfg : Cfg) (g : Ghost) (n : Nat) (tid : String) (hn : wfNode cfg.backend n = true) :
    ∀ (k : Nat) (w : World), InvS cfg.backend w g →
      check cfg g (.pollStart n tid k) (pollLoop cfg n tid k w).2 = true ∧
      InvS cfg.backend (pollLoop cfg n tid k w).1 g ∧
      (pollLoop cfg n tid k w).1.bridges = w.bridges := by
  intro k
  induction k with
  | zero => intro w hI; exact ⟨by simp [pollLoop, check], hI, rfl⟩
  | succ k ih =>
    intro w hI
    obtain ⟨_, hI', hb⟩ := look_ok cfg w g n tid hI hn
    obtain ⟨hlive, hdead⟩ := look_by_spec cfg w g n tid hI hn
    cases hr : liveReg cfg g tid with
    | some t =>
      have hf := hlive t hr
      cases hres : (lookupWaitingTunnel cfg w n tid).2 <;> simp_all [isFoundAs, pollLoop, check]
    | none =>
      by_cases he : tid = ""
      · subst he
        simp [pollLoop, lookup_empty, check, hr, hI]
      · rcases hdead hr he with h | h
        · obtain ⟨c1, c2, c3⟩ := ih _ hI'
          have hp : (pollLoop cfg n tid k (lookupWaitingTunnel cfg w n tid).1).2 = .pending := by
            simp only [check, hr, he, beq_iff_eq] at c1
            by_cases hk0 : k = 0
            · subst hk0; rfl
            · simpa [hk0] using c1
          simp only [pollLoop, h]
          exact ⟨by simp [check, hr, he, hp], c2, c3.trans hb⟩
        · obtain ⟨c1, c2, c3⟩ := ih _ hI'
          have hp : (pollLoop cfg n tid k (lookupWaitingTunnel cfg w n tid).1).2 = .pending := by
            simp only [check, hr, he, beq_iff_eq] at c1
            by_cases hk0 : k = 0
            · subst hk0; rfl
            · simpa [hk0] using c1
          simp only [pollLoop, h]
          exact ⟨by simp [check, hr, he, hp], c2, c3.trans hb⟩

theorem pollEnd_ok (cfg : Cfg) (w : World) (g : Ghost) (n : Nat) (tid : String) (hI : InvS cfg.backend w g)
    (hn : wfNode cfg.backend n = true) :
    check cfg g (.pollEnd n tid) (pollEnd cfg w n tid).2 = true ∧
    InvS cfg.backend (pollEnd cfg w n tid).1 g ∧ (pollEnd cfg w n tid).1.bridges = w.bridges := by
  obtain ⟨c1, c2, c3⟩ := poll_ok cfg g n tid hn 1 w hI
  have hfst : (pollEnd cfg w n tid).1 = (pollLoop cfg n tid 1 w).1 := by
    unfold pollEnd; split <;> rfl
  rw [hfst]
  refine ⟨?_, c2, c3⟩
  unfold pollEnd
  simp only [check] at c1 ⊢
  cases hr : liveReg cfg g tid with
  | some t =>
    rw [hr] at c1
    cases hres : (pollLoop cfg n tid 1 w).2 <;> simp_all [isFoundAs]
  | none =>
    rw [hr] at c1
    by_cases he : tid = ""
    · cases hres : (pollLoop cfg n tid 1 w).2 <;> simp_all
    · cases hres : (pollLoop cfg n tid 1 w).2 <;> simp_all

/-! ### Clocks -/

theorem RelT_mono (b : Backend) {wall wall' : Nat} (h : wall ≤ wall') (go : Option GT) (eo : Option Entry)
    (hr : RelT b wall go eo) : RelT b wall' go eo := by
  cases go <;> cases eo <;> simp only [RelT] at hr ⊢ <;> first | exact hr | omega

theorem clock_ok (b : Backend) (w : World) (g : Ghost) (dw dr : Nat) (hI : InvS b w g) :
    InvS b { w with wall := w.wall + dw, rclk := w.rclk + dr } { g with wall := g.wall + dw, rclk := g.rclk + dr } :=
  ⟨by simp [hI.wall], by simp [hI.rclk], fun tid => RelT_mono b (Nat.le_add_right _ _) _ _ (hI.tun tid), hI.adr, hI.gwf, hI.noEmpty⟩

/-! ### Bridges and whole steps -/

def Inv0 (b : Backend) (w : World) (g : Ghost) : Prop := InvS b w g ∧ w.bridges = g.bridges

theorem InvS_bridges_w (b : Backend) (w : World) (g : Ghost) (x : Nat → String → Bool) (h : InvS b w g) :
    InvS b { w with bridges := x } g := ⟨h.wall, h.rclk, h.tun, h.adr, h.gwf, h.noEmpty⟩

theorem InvS_bridges_g (b : Backend) (w : World) (g : Ghost) (x : Nat → String → Bool) (h : InvS b w g) :
    InvS b w { g with bridges := x } := ⟨h.wall, h.rclk, h.tun, h.adr, h.gwf, h.noEmpty⟩

/-! ### Restart -/

theorem restart_ok (cfg : Cfg) (w : World) (g : Ghost) (n : Nat) (hI : Inv0 cfg.backend w g)
    (hb : (cfg.backend != .hybridLocal) = true) :
    Inv0 cfg.backend (restartNode cfg w n) (gstep cfg g (.restart n)) := by
  obtain ⟨hS, hB⟩ := hI
  have hh : home cfg.backend = 0 := by
    simp only [bne_iff_ne, ne_eq] at hb
    simp [home, hb]
  have hst : (restartNode cfg w n).stores (home cfg.backend) = w.stores (home cfg.backend) := by
    simp [restartNode, hh]
  refine ⟨⟨hS.wall, hS.rclk, ?_, ?_, hS.gwf, hS.noEmpty⟩, ?_⟩
  · intro tid; rw [hst]; exact hS.tun tid
  · intro nid; rw [hst]; exact hS.adr nid
  · simp [restartNode, gstep, hB]

/-- Every event except the second half of a slow lookup, without the in-flight relation. -/
theorem step_ok0 (cfg : Cfg) (w : World) (g : Ghost) (e : Ev) (hI : Inv0 cfg.backend w g) (hwf : wfEv cfg.backend e = true)
    (hne : ∀ n tid, e ≠ .slowEnd n tid) :
    check cfg g e (step cfg w e).2 = true ∧ Inv0 cfg.backend (step cfg w e).1 (gstep cfg g e) := by
  obtain ⟨hS, hB⟩ := hI
  cases e with
  | reg n r =>
    simp only [wfEv, Bool.and_eq_true] at hwf
    obtain ⟨h1, h2, h3⟩ := reg_ok cfg w g n r hS hwf.1 hwf.2
    simp only [step, check, gstep]
    refine ⟨?_, ?_, ?_⟩
    · rw [h1]; by_cases he : r.tunnelID = "" <;> simp [he]
    · by_cases he : r.tunnelID = "" <;> simpa [he] using h2
    · rw [h3, hB]; by_cases he : r.tunnelID = "" <;> simp [he, setT]
  | look n tid =>
    simp only [wfEv] at hwf
    obtain ⟨h1, h2, h3⟩ := look_ok cfg w g n tid hS hwf
    exact ⟨h1, h2, by rw [show (step cfg w (.look n tid)).1 = (lookupWaitingTunnel cfg w n tid).1 from rfl, h3]; exact hB⟩
  | rem n tid =>
    simp only [wfEv] at hwf
    obtain ⟨h1, h2, h3⟩ := rem_ok cfg w g n tid hS hwf
    simp only [step, check, gstep]
    refine ⟨?_, ?_, ?_⟩
    · rw [h1]; by_cases he : tid = "" <;> simp [he]
    · by_cases he : tid = "" <;> simpa [he] using h2
    · rw [h3, hB]; by_cases he : tid = "" <;> simp [he, setT]
  | remDead n tid =>
    simp only [wfEv] at hwf
    obtain ⟨h1, h2, h3⟩ := rem_ok cfg w g n tid hS hwf
    simp only [step, check, gstep]
    refine ⟨?_, ?_, ?_⟩
    · rw [h1]; by_cases he : tid = "" <;> simp [he]
    · by_cases he : tid = "" <;> simpa [he] using h2
    · rw [h3, hB]; by_cases he : tid = "" <;> simp [he, setT]
  | open_ n r =>
    simp only [wfEv, Bool.and_eq_true] at hwf
    simp only [step, startSourceBridge, check, gstep, hB]
    cases hb : g.bridges n r.tunnelID with
    | true =>
      simp only [if_true]
      exact ⟨by simp, hS, hB⟩
    | false =>
      simp only [Bool.false_eq_true, if_false]
      have hS1 := InvS_bridges_w cfg.backend w g (fun m t => if m = n ∧ t = r.tunnelID then true else g.bridges m t) hS
      have hr1 : wfRec cfg.backend { r with sourceNodeID := nodeName n } = true := by simpa [wfRec] using hwf.2
      obtain ⟨_, h2, h3⟩ := reg_ok cfg _ g n { r with sourceNodeID := nodeName n } hS1 hwf.1 hr1
      exact ⟨by simp, InvS_bridges_g _ _ _ _ h2, h3⟩
  | endB n tid =>
    simp only [wfEv] at hwf
    simp only [step, endBridge, check, gstep, hB]
    cases hb : g.bridges n tid with
    | true =>
      simp only [if_true]
      have hS1 := InvS_bridges_w cfg.backend w g (fun m t => if m = n ∧ t = tid then false else g.bridges m t) hS
      obtain ⟨_, h2, h3⟩ := rem_ok cfg _ g n tid hS1 hwf
      exact ⟨by simp, InvS_bridges_g _ _ _ _ h2, h3⟩
    | false =>
      simp only [Bool.false_eq_true, if_false]
      exact ⟨by simp, hS, hB⟩
  | adv d => exact ⟨by simp [step, check], clock_ok cfg.backend w g d d hS, hB⟩
  | advWall d => exact ⟨by simp [step, check], by simpa [step, gstep] using clock_ok cfg.backend w g d 0 hS, hB⟩
  | advStore d => exact ⟨by simp [step, check], by simpa [step, gstep] using clock_ok cfg.backend w g 0 d hS, hB⟩
  | regAddr n nid a =>
    simp only [wfEv] at hwf
    obtain ⟨h1, h2, h3⟩ := regAddr_ok cfg w g n nid a hS hwf
    exact ⟨by simp [step, check, h1], h2, by rw [show (step cfg w (.regAddr n nid a)).1 = (registerNodeAddress cfg w n nid a).1 from rfl, h3]; exact hB⟩
  | getAddr n nid =>
    simp only [wfEv] at hwf
    exact ⟨getAddr_ok cfg w g n nid hS hwf, hS, hB⟩
  | pollStart n tid k =>
    simp only [wfEv] at hwf
    obtain ⟨h1, h2, h3⟩ := poll_ok cfg g n tid hwf k w hS
    exact ⟨h1, h2, by rw [show (step cfg w (.pollStart n tid k)).1 = (pollLoop cfg n tid k w).1 from rfl, h3]; exact hB⟩
  | pollEnd n tid =>
    simp only [wfEv] at hwf
    obtain ⟨h1, h2, h3⟩ := pollEnd_ok cfg w g n tid hS hwf
    exact ⟨h1, h2, by rw [show (step cfg w (.pollEnd n tid)).1 = (pollEnd cfg w n tid).1 from rfl, h3]; exact hB⟩
  | restart n =>
    simp only [wfEv] at hwf
    exact ⟨by simp [step, check], restart_ok cfg w g n ⟨hS, hB⟩ hwf⟩
  | slowBegin n tid =>
    by_cases he : tid = ""
    · simp [step, slowBegin, check, gstep, he, hS, hB, Inv0]
    · simp only [step, slowBegin, check, gstep, he, beq_iff_eq, if_false]
      exact ⟨by simp, ⟨hS.wall, hS.rclk, hS.tun, hS.adr, hS.gwf, hS.noEmpty⟩, hB⟩
  | slowEnd n tid => exact absurd rfl (hne n tid)
  | fwd n tid =>
    simp only [wfEv] at hwf
    obtain ⟨h1, h2, h3⟩ := fwd_ok cfg w g n tid hS hB hwf
    exact ⟨h1, h2, by rw [show (step cfg w (.fwd n tid)).1 = (forwardTarget cfg w n tid).1 from rfl, h3]; exact hB⟩

/-! ### Overlapping lookups -/

/-- What a slow lookup holds in its hand vs. what the specification state recorded when the store answered. -/
def InfRel (b : Backend) (w : World) (g : Ghost) : Prop := ∀ n tid,
  match g.inflight n tid, w.inflight n tid with
  | none, none => True
  | some none, some (some none) => True
  | some (some t), some (some (some v)) => v = onGet (homeKind b) (entryT b t).val ∧ wfRec b t.data = true
  | _, _ => False

def Inv (b : Backend) (w : World) (g : Ghost) : Prop := Inv0 b w g ∧ InfRel b w g

theorem InfRel_frame (b : Backend) {w w' : World} {g g' : Ghost} (h : InfRel b w g)
    (hw : w'.inflight = w.inflight) (hg : g'.inflight = g.inflight) : InfRel b w' g' := by
  intro n tid
  rw [hw, hg]
  exact h n tid

theorem storageSet_inflight {b : Backend} {w w' : World} {n : Nat} {k : String} {v : Val} {ttl : Nat}
    (h : storageSet b w n k v ttl = some w') : w'.inflight = w.inflight := by
  unfold storageSet at h
  split at h
  · cases h
  · cases h; rfl

theorem storageDelete_inflight (b : Backend) (w : World) (n : Nat) (k : String) :
    ((storageDelete b w n k).getD w).inflight = w.inflight := by
  unfold storageDelete
  split <;> rfl

theorem reg_inflight (cfg : Cfg) (w : World) (n : Nat) (r : Rec) :
    (registerWaitingTunnel cfg w n r).1.inflight = w.inflight := by
  unfold registerWaitingTunnel
  split
  · rfl
  · split
    · rename_i h; exact storageSet_inflight h
    · rfl

theorem rem_inflight (cfg : Cfg) (w : World) (n : Nat) (tid : String) :
    (removeWaitingTunnel cfg w n tid).1.inflight = w.inflight := by
  unfold removeWaitingTunnel
  split
  · rfl
  · exact storageDelete_inflight _ _ _ _

theorem regAddr_inflight (cfg : Cfg) (w : World) (n : Nat) (nid a : String) :
    (registerNodeAddress cfg w n nid a).1.inflight = w.inflight := by
  unfold registerNodeAddress
  split
  · rename_i h; exact storageSet_inflight h
  · rfl

theorem pollLoop_world (cfg : Cfg) (n : Nat) (tid : String) : ∀ (k : Nat) (w : World), (pollLoop cfg n tid k w).1 = w := by
  intro k
  induction k with
  | zero => intro w; rfl
  | succ k ih =>
    intro w
    unfold pollLoop
    split <;> simp [lookup_world, ih]

theorem step_inflight (cfg : Cfg) (w : World) (e : Ev) (h1 : ∀ n tid, e ≠ .slowBegin n tid) (h2 : ∀ n tid, e ≠ .slowEnd n tid)
    (h3 : ∀ n, e ≠ .restart n) : (step cfg w e).1.inflight = w.inflight := by
  cases e with
  | reg n r => exact reg_inflight cfg w n r
  | look n tid => simp [step, lookup_world]
  | rem n tid => exact rem_inflight cfg w n tid
  | remDead n tid => exact rem_inflight cfg w n tid
  | open_ n r =>
    simp only [step, startSourceBridge]
    split
    · rfl
    · exact reg_inflight cfg _ n _
  | endB n tid =>
    simp only [step, endBridge]
    split
    · exact rem_inflight cfg _ n tid
    · rfl
  | adv d => rfl
  | advWall d => rfl
  | advStore d => rfl
  | regAddr n nid a => exact regAddr_inflight cfg w n nid a
  | getAddr n nid => rfl
  | fwd n tid =>
    simp only [step, forwardTarget]
    split <;> simp [lookup_world]
  | pollStart n tid k => simp [step, pollLoop_world]
  | pollEnd n tid =>
    simp only [step, pollEnd]
    split <;> simp [pollLoop_world]
  | restart n => exact absurd rfl (h3 n)
  | slowBegin n tid => exact absurd rfl (h1 n tid)
  | slowEnd n tid => exact absurd rfl (h2 n tid)

theorem gstep_inflight (cfg : Cfg) (g : Ghost) (e : Ev) (h1 : ∀ n tid, e ≠ .slowBegin n tid) (h2 : ∀ n tid, e ≠ .slowEnd n tid)
    (h3 : ∀ n, e ≠ .restart n) : (gstep cfg g e).inflight = g.inflight := by
  cases e with
  | restart n => exact absurd rfl (h3 n)
  | slowBegin n tid => exact absurd rfl (h1 n tid)
  | slowEnd n tid => exact absurd rfl (h2 n tid)
  | reg n r => simp only [gstep]; split <;> rfl
  | rem n tid => simp only [gstep]; split <;> rfl
  | remDead n tid => simp only [gstep]; split <;> rfl
  | open_ n r =>
    simp only [gstep]
    split
    · rfl
    · by_cases he : (r.tunnelID == "") = true <;> simp [he, setT]
  | endB n tid =>
    simp only [gstep]
    split
    · by_cases he : (tid == "") = true <;> simp [he, setT]
    · rfl
  | look n tid => rfl
  | adv d => rfl
  | advWall d => rfl
  | advStore d => rfl
  | regAddr n nid a => rfl
  | getAddr n nid => rfl
  | fwd n tid => rfl
  | pollStart n tid k => rfl
  | pollEnd n tid => rfl

/-- The store answers the Get of a slow lookup: what it hands out is what the specification recorded. -/
theorem slowBegin_inf (cfg : Cfg) (w : World) (g : Ghost) (n : Nat) (tid : String) (hI : Inv cfg.backend w g)
    (hn : wfNode cfg.backend n = true) : InfRel cfg.backend (slowBegin cfg w n tid).1 (gstep cfg g (.slowBegin n tid)) := by
  obtain ⟨⟨hS, _⟩, hF⟩ := hI
  by_cases he : tid = ""
  · simpa [slowBegin, gstep, he] using hF
  · intro m t
    simp only [slowBegin, gstep, he, beq_iff_eq, if_false]
    by_cases hm : m = n ∧ t = tid
    · obtain ⟨rfl, rfl⟩ := hm
      simp only [and_self, if_true]
      have hk := storeIdx_makeKey cfg.backend m t hn
      rw [storageGet_home _ _ _ _ hk]
      have hrel := hS.tun t
      simp only [skGet]
      cases hg : g.tunnels t with
      | none =>
        rw [hg] at hrel
        cases hs : w.stores (home cfg.backend) (C09.makeKey t) with
        | none => simp
        | some e => rw [hs] at hrel; exact absurd hrel (by simp [RelT])
      | some x =>
        rw [hg] at hrel
        cases hs : w.stores (home cfg.backend) (C09.makeKey t) with
        | none => rw [hs] at hrel; exact absurd hrel (by simp [RelT])
        | some e =>
          rw [hs] at hrel
          simp only [RelT] at hrel
          subst hrel
          dsimp only
          rw [entryLive_entryT]
          have hsl : storeLiveT cfg.backend g x =
              (if onRedis cfg.backend then decide (w.rclk < x.storeAt + x.ttl) else decide (w.wall ≤ x.wallAt + x.ttl)) := by
            simp [storeLiveT, hS.wall, hS.rclk]
          rw [hsl]
          by_cases hl : (if onRedis cfg.backend then decide (w.rclk < x.storeAt + x.ttl) else decide (w.wall ≤ x.wallAt + x.ttl)) = true
          · simp only [hl, if_true]
            exact ⟨trivial, (hS.gwf t x hg).2⟩
          · simp [hl]
    · simp only [hm, if_false]
      exact hF m t

/-- The delayed reply arrives: the lookup answers with what the store handed out, checked against the clock now. -/
theorem slowEnd_ok (cfg : Cfg) (w : World) (g : Ghost) (n : Nat) (tid : String) (hI : Inv cfg.backend w g) :
    check cfg g (.slowEnd n tid) (slowEnd w n tid).2 = true ∧
    Inv cfg.backend (slowEnd w n tid).1 (gstep cfg g (.slowEnd n tid)) := by
  obtain ⟨⟨hS, hB⟩, hF⟩ := hI
  have hrel := hF n tid
  have hinf : InfRel cfg.backend (slowEnd w n tid).1 (gstep cfg g (.slowEnd n tid)) := by
    intro m t
    by_cases hm : m = n ∧ t = tid
    · obtain ⟨rfl, rfl⟩ := hm
      unfold slowEnd
      cases hwi : w.inflight m t <;> simp [gstep, hwi] <;> (rw [hwi] at hrel; cases hgi : g.inflight m t <;> simp_all)
    · have := hF m t
      unfold slowEnd
      cases hwi : w.inflight n tid <;> simp [gstep, hm] <;> exact this
  have hinv0 : Inv0 cfg.backend (slowEnd w n tid).1 (gstep cfg g (.slowEnd n tid)) := by
    unfold slowEnd
    cases hwi : w.inflight n tid
    · exact ⟨⟨hS.wall, hS.rclk, hS.tun, hS.adr, hS.gwf, hS.noEmpty⟩, hB⟩
    · exact ⟨⟨hS.wall, hS.rclk, hS.tun, hS.adr, hS.gwf, hS.noEmpty⟩, hB⟩
  refine ⟨?_, hinv0, hinf⟩
  unfold slowEnd
  simp only [check]
  cases hgi : g.inflight n tid with
  | none =>
    rw [hgi] at hrel
    cases hwi : w.inflight n tid with
    | none => simp
    | some got => rw [hwi] at hrel; simp at hrel
  | some snap =>
    rw [hgi] at hrel
    cases hwi : w.inflight n tid with
    | none => rw [hwi] at hrel; cases snap <;> simp at hrel
    | some got =>
      rw [hwi] at hrel
      cases snap with
      | none =>
        cases got with
        | none => simp at hrel
        | some o => cases o <;> simp_all
      | some t =>
        cases got with
        | none => simp at hrel
        | some o =>
          cases o with
          | none => simp at hrel
          | some v =>
            simp only at hrel
            obtain ⟨hv, hwf⟩ := hrel
            subst hv
            have hdec : decodeValue (onGet (homeKind cfg.backend) (entryT cfg.backend t).val) = some (stamp t) :=
              decode_roundtrip cfg.backend (stamp t) (by simpa [stamp, wfRec] using hwf)
            simp only [hdec]
            by_cases hexp : w.wall > t.wallAt + t.ttl
            · have hexp' : w.wall > (stamp t).expiresAt := hexp
              have : ¬ g.wall ≤ t.wallAt + t.ttl := by rw [← hS.wall]; omega
              simp [hexp', this]
            · have hexp' : ¬ w.wall > (stamp t).expiresAt := hexp
              have : g.wall ≤ t.wallAt + t.ttl := by rw [← hS.wall]; omega
              simp [hexp', this, isFoundAs, sameData_stamp]

theorem restart_inf (cfg : Cfg) (w : World) (g : Ghost) (n : Nat) (hF : InfRel cfg.backend w g) :
    InfRel cfg.backend (restartNode cfg w n) (gstep cfg g (.restart n)) := by
  intro m t
  by_cases hm : m = n
  · simp [restartNode, gstep, hm]
  · simpa [restartNode, gstep, hm] using hF m t

theorem step_ok (cfg : Cfg) (w : World) (g : Ghost) (e : Ev) (hI : Inv cfg.backend w g) (hwf : wfEv cfg.backend e = true) :
    check cfg g e (step cfg w e).2 = true ∧ Inv cfg.backend (step cfg w e).1 (gstep cfg g e) := by
  by_cases hE : ∃ n tid, e = .slowEnd n tid
  · obtain ⟨n, tid, rfl⟩ := hE
    exact slowEnd_ok cfg w g n tid hI
  · have hne : ∀ n tid, e ≠ .slowEnd n tid := fun n tid h => hE ⟨n, tid, h⟩
    obtain ⟨h1, h2⟩ := step_ok0 cfg w g e hI.1 hwf hne
    refine ⟨h1, h2, ?_⟩
    by_cases hB : ∃ n tid, e = .slowBegin n tid
    · obtain ⟨n, tid, rfl⟩ := hB
      simp only [wfEv] at hwf
      exact slowBegin_inf cfg w g n tid hI hwf
    · by_cases hR : ∃ n, e = .restart n
      · obtain ⟨n, rfl⟩ := hR
        exact restart_inf cfg w g n hI.2
      · exact InfRel_frame cfg.backend hI.2
          (step_inflight cfg w e (fun n tid h => hB ⟨n, tid, h⟩) hne (fun n h => hR ⟨n, h⟩))
          (gstep_inflight cfg g e (fun n tid h => hB ⟨n, tid, h⟩) hne (fun n h => hR ⟨n, h⟩))

theorem Inv_init (b : Backend) : Inv b World.init Ghost.init :=
  ⟨⟨⟨rfl, rfl, fun _ => trivial, fun _ => rfl, fun _ _ h => by simp [Ghost.init] at h, rfl⟩, rfl⟩, fun _ _ => trivial⟩

theorem holdsFrom_run (cfg : Cfg) (evs : List Ev) : ∀ (w : World) (g : Ghost), Inv cfg.backend w g →
    (∀ e ∈ evs, wfEv cfg.backend e = true) → holdsFrom cfg g evs (runFrom cfg w evs) = true := by
  induction evs with
  | nil => intros; rfl
  | cons e es ih =>
    intro w g hI hwf
    obtain ⟨h1, h2⟩ := step_ok cfg w g e hI (hwf e (List.mem_cons_self))
    simp only [runFrom, holdsFrom, h1, Bool.true_and]
    exact ih _ _ h2 (fun e' he' => hwf e' (List.mem_cons_of_mem _ he'))

end Tunnox.C09
