import TunnoxModel.Model.C17Slot
/-! C17: the slot counter equals the number of connections that hold a slot — never negative, never above the limit. -/
namespace Tunnox.C17Slot

@[simp] theorem upd_self (f : Nat → St) (i : Nat) (s : St) : upd f i s i = s := by simp [upd]
theorem upd_ne (f : Nat → St) (i j : Nat) (s : St) (h : j ≠ i) : upd f i s j = f j := by simp [upd, h]

theorem replay_snoc (limit : Nat) (tr : List Ev) (e : Ev) :
    replay limit (tr ++ [e]) = specStep limit (replay limit tr) e := by
  simp [replay, List.foldl_append]

/-- The reference (`acqd`, `live`) describes the configuration exactly. -/
structure Inv (limit : Nat) (c : Cfg) : Prop where
  good : (replay limit c.trace).good = true
  live : (replay limit c.trace).live = c.tunnels
  cnt : c.cnt = ((replay limit c.trace).acqd.length + c.tunnels.length : Nat)
  cap : limit = 0 ∨ c.cnt ≤ limit
  nda : (replay limit c.trace).acqd.Nodup
  ndl : c.tunnels.Nodup
  ma : ∀ i, i ∈ (replay limit c.trace).acqd ↔ c.st i = .acq
  ml : ∀ i, i ∈ c.tunnels ↔ (c.st i = .reg ∨ c.st i = .run)

theorem capOk_of (limit n : Nat) (cnt : Int) (hc : limit = 0 ∨ cnt ≤ limit) (hn : (n : Int) ≤ cnt) :
    capOk limit n = true := by
  unfold capOk
  rcases hc with h | h
  · simp [h]
  · simp; right; omega

theorem nodup_snoc {l : List Nat} {i : Nat} (h : l.Nodup) (hi : i ∉ l) : (l ++ [i]).Nodup := by
  rw [List.nodup_append]
  refine ⟨h, by simp, ?_⟩
  intro a ha b hb
  simp at hb
  subst hb
  intro e; subst e; exact hi ha

theorem inv_init (limit : Nat) : Inv limit init := by
  refine ⟨rfl, rfl, rfl, ?_, List.nodup_nil, List.nodup_nil, ?_, ?_⟩
  · right; simp [init]
  · intro i; simp [init, replay]
  · intro i; simp [init]

theorem inv_stepConn {limit : Nat} {c : Cfg} (h : Inv limit c) (i : Nat) : Inv limit (stepConn true limit c i) := by
  have hlen : ((c.tunnels.length : Nat) : Int) ≤ c.cnt := by rw [h.cnt]; omega
  have hcapn : capOk limit c.tunnels.length = true := capOk_of limit _ c.cnt h.cap hlen
  unfold stepConn
  split
  · -- idle
    rename_i hst
    cases hfull : full limit c.cnt with
    | true =>
      simp only [if_true]
      refine ⟨?_, ?_, ?_, h.cap, ?_, h.ndl, ?_, ?_⟩
      all_goals simp only [replay_snoc, specStep]
      · simp [h.good, h.live, hcapn]
      · exact h.live
      · exact h.cnt
      · exact h.nda
      · intro j
        by_cases e : j = i
        · subst e; simp [(h.ma j), hst]
        · rw [upd_ne _ _ _ _ e]; exact h.ma j
      · intro j
        by_cases e : j = i
        · subst e; simp [(h.ml j), hst]
        · rw [upd_ne _ _ _ _ e]; exact h.ml j
    | false =>
      simp only [Bool.false_eq_true, if_false]
      have hna : i ∉ (replay limit c.trace).acqd := by rw [h.ma i, hst]; simp
      have hnl : i ∉ c.tunnels := by rw [h.ml i, hst]; simp
      have hroom : limit = 0 ∨ c.cnt < limit := by
        unfold full at hfull
        simp at hfull
        rcases Nat.eq_zero_or_pos limit with hz | hp
        · left; exact hz
        · right; exact hfull hp
      refine ⟨?_, ?_, ?_, ?_, ?_, h.ndl, ?_, ?_⟩
      all_goals simp only [replay_snoc, specStep]
      · have hlt : limit = 0 ∨ (replay limit c.trace).acqd.length + c.tunnels.length < limit := by
          rcases hroom with hz | hl
          · left; exact hz
          · right; have := h.cnt; omega
        rw [h.live]
        have hroomB : (limit == 0 || decide ((replay limit c.trace).acqd.length + c.tunnels.length < limit)) = true := by
          rcases hlt with hz | hl
          · simp [hz]
          · simp [hl]
        simp [h.good, hroomB, hna, hnl, hcapn]
      · exact h.live
      · rw [List.length_append]; have := h.cnt; simp only [List.length_singleton]; omega
      · rcases hroom with hz | hl
        · left; exact hz
        · right; omega
      · exact nodup_snoc h.nda hna
      · intro j
        by_cases e : j = i
        · subst e; simp
        · rw [upd_ne _ _ _ _ e, List.mem_append]; simp [e, h.ma j]
      · intro j
        by_cases e : j = i
        · subst e; simp [hnl]
        · rw [upd_ne _ _ _ _ e]; exact h.ml j
  · -- acq -> reg
    rename_i hst
    have hia : i ∈ (replay limit c.trace).acqd := (h.ma i).mpr hst
    have hnl : i ∉ c.tunnels := by rw [h.ml i, hst]; simp
    have hle : (replay limit c.trace).acqd.length ≥ 1 := List.length_pos_of_mem hia
    have hcap1 : capOk limit (c.tunnels.length + 1) = true := by
      apply capOk_of limit _ c.cnt h.cap; rw [h.cnt]; omega
    refine ⟨?_, ?_, ?_, h.cap, ?_, ?_, ?_, ?_⟩
    all_goals simp only [replay_snoc, specStep]
    · simp [h.good, h.live, hia, hcap1]
    · rw [h.live]
    · rw [List.length_erase_of_mem hia, List.length_append]; have := h.cnt; simp only [List.length_singleton]; omega
    · exact h.nda.erase i
    · exact nodup_snoc h.ndl hnl
    · intro j
      rw [h.nda.mem_erase_iff]
      by_cases e : j = i
      · subst e; simp
      · rw [upd_ne _ _ _ _ e]; simp [e, h.ma j]
    · intro j
      by_cases e : j = i
      · subst e; simp
      · rw [upd_ne _ _ _ _ e, List.mem_append]; simp [e, h.ml j]
  · -- reg -> run
    rename_i hst
    refine ⟨?_, ?_, ?_, h.cap, ?_, h.ndl, ?_, ?_⟩
    all_goals simp only [replay_snoc, specStep]
    · simp [h.good, h.live, hcapn]
    · exact h.live
    · exact h.cnt
    · exact h.nda
    · intro j
      by_cases e : j = i
      · subst e; simp [(h.ma j), hst]
      · rw [upd_ne _ _ _ _ e]; exact h.ma j
    · intro j
      by_cases e : j = i
      · subst e; simp [(h.ml j), hst]
      · rw [upd_ne _ _ _ _ e]; exact h.ml j
  · -- regClosed -> fin (Start failed; the OnceFunc has fired already)
    rename_i hst
    refine ⟨?_, ?_, ?_, h.cap, ?_, h.ndl, ?_, ?_⟩
    all_goals simp only [replay_snoc, specStep, if_true]
    · simp [h.good, h.live, hcapn]
    · exact h.live
    · exact h.cnt
    · exact h.nda
    · intro j
      by_cases e : j = i
      · subst e; simp [(h.ma j), hst]
      · rw [upd_ne _ _ _ _ e]; exact h.ma j
    · intro j
      by_cases e : j = i
      · subst e; simp [(h.ml j), hst]
      · rw [upd_ne _ _ _ _ e]; exact h.ml j
  · exact h
  · exact h

theorem inv_close_live {limit : Nat} {c : Cfg} (h : Inv limit c) (i : Nat) (s' : St)
    (hst : c.st i = .reg ∨ c.st i = .run) (hs1 : s' ≠ .acq) (hs2 : s' ≠ .reg) (hs3 : s' ≠ .run) :
    Inv limit { c with cnt := c.cnt - 1, tunnels := c.tunnels.erase i, st := upd c.st i s',
                       trace := c.trace ++ [.cls i (c.tunnels.erase i).length] } := by
  have hil : i ∈ c.tunnels := (h.ml i).mpr hst
  have hpos : c.tunnels.length ≥ 1 := List.length_pos_of_mem hil
  have hcap' : limit = 0 ∨ c.cnt - 1 ≤ limit := by
    rcases h.cap with hz | hl
    · left; exact hz
    · right; omega
  have hcapn : capOk limit (c.tunnels.erase i).length = true := by
    apply capOk_of limit _ (c.cnt - 1) hcap'
    rw [List.length_erase_of_mem hil, h.cnt]; omega
  have hnotacq : c.st i ≠ .acq := by rcases hst with e | e <;> rw [e] <;> simp
  refine ⟨?_, ?_, ?_, hcap', ?_, h.ndl.erase i, ?_, ?_⟩
  all_goals simp only [replay_snoc, specStep]
  · have hcapn' : capOk limit (c.tunnels.length - 1) = true := by
      rw [← List.length_erase_of_mem hil]; exact hcapn
    simp [h.good, h.live, hil, hcapn']
  · rw [h.live]
  · rw [List.length_erase_of_mem hil]; have := h.cnt; omega
  · exact h.nda
  · intro j
    by_cases e : j = i
    · subst e; simp [(h.ma j), hnotacq, hs1]
    · rw [upd_ne _ _ _ _ e]; exact h.ma j
  · intro j
    rw [h.ndl.mem_erase_iff]
    by_cases e : j = i
    · subst e; simp [hs2, hs3]
    · rw [upd_ne _ _ _ _ e]; simp [e, h.ml j]

theorem inv_closeConn {limit : Nat} {c : Cfg} (h : Inv limit c) (i : Nat) : Inv limit (closeConn c i) := by
  have hlen : ((c.tunnels.length : Nat) : Int) ≤ c.cnt := by rw [h.cnt]; omega
  have hcapn : capOk limit c.tunnels.length = true := capOk_of limit _ c.cnt h.cap hlen
  unfold closeConn
  split
  · rename_i hst
    exact inv_close_live h i .regClosed (Or.inl hst) (by simp) (by simp) (by simp)
  · rename_i hst
    exact inv_close_live h i .fin (Or.inr hst) (by simp) (by simp) (by simp)
  · refine ⟨?_, ?_, ?_, h.cap, ?_, h.ndl, ?_, h.ml⟩
    all_goals simp only [replay_snoc, specStep]
    · simp [h.good, h.live, hcapn]
    · exact h.live
    · exact h.cnt
    · exact h.nda
    · exact h.ma

theorem inv_failConn {limit : Nat} {c : Cfg} (h : Inv limit c) (i : Nat) : Inv limit (failConn true limit c i) := by
  have hlen : ((c.tunnels.length : Nat) : Int) ≤ c.cnt := by rw [h.cnt]; omega
  have hcapn : capOk limit c.tunnels.length = true := capOk_of limit _ c.cnt h.cap hlen
  unfold failConn
  split
  · -- idle: refused, or taken and given back
    rename_i hst
    have key : ∀ e : Ev, (specStep limit (replay limit c.trace) e = ⟨(replay limit c.trace).acqd, (replay limit c.trace).live,
        (replay limit c.trace).good && c.tunnels.length == (replay limit c.trace).live.length && capOk limit c.tunnels.length⟩) →
        Inv limit { c with st := upd c.st i .fin, trace := c.trace ++ [e] } := by
      intro e he
      refine ⟨?_, ?_, ?_, h.cap, ?_, h.ndl, ?_, ?_⟩
      all_goals simp only [replay_snoc, he]
      · simp [h.good, h.live, hcapn]
      · exact h.live
      · exact h.cnt
      · exact h.nda
      · intro j
        by_cases e' : j = i
        · subst e'; simp [(h.ma j), hst]
        · rw [upd_ne _ _ _ _ e']; exact h.ma j
      · intro j
        by_cases e' : j = i
        · subst e'; simp [(h.ml j), hst]
        · rw [upd_ne _ _ _ _ e']; exact h.ml j
    split
    · exact key _ rfl
    · exact key _ rfl
  · -- acq: RegisterTunnel failed
    rename_i hst
    have hia : i ∈ (replay limit c.trace).acqd := (h.ma i).mpr hst
    have hcap' : limit = 0 ∨ c.cnt - 1 ≤ limit := by
      rcases h.cap with hz | hl
      · left; exact hz
      · right; omega
    refine ⟨?_, ?_, ?_, hcap', ?_, h.ndl, ?_, ?_⟩
    all_goals simp only [replay_snoc, specStep]
    · simp [h.good, h.live, hia, hcapn]
    · exact h.live
    · rw [List.length_erase_of_mem hia]
      have := h.cnt
      have hpos : (replay limit c.trace).acqd.length ≥ 1 := List.length_pos_of_mem hia
      omega
    · exact h.nda.erase i
    · intro j
      rw [h.nda.mem_erase_iff]
      by_cases e : j = i
      · subst e; simp
      · rw [upd_ne _ _ _ _ e]; simp [e, h.ma j]
    · intro j
      by_cases e : j = i
      · subst e; simp [(h.ml j), hst]
      · rw [upd_ne _ _ _ _ e]; exact h.ml j
  · exact inv_stepConn h i

theorem inv_run {limit : Nat} (σ : List Sch) (c : Cfg) (h : Inv limit c) : Inv limit (run true limit c σ) := by
  induction σ generalizing c with
  | nil => exact h
  | cons e r ih =>
    simp only [run, List.foldl_cons]
    apply ih
    cases e with
    | step i => exact inv_stepConn h i
    | close i => exact inv_closeConn h i
    | stepFail i => exact inv_failConn h i

end Tunnox.C17Slot
