import TunnoxModel.Proofs.C14Trace
/-! C14 — shared lemmas for the schedule proofs: cells, the repaired step, thread-list updates. -/
namespace Tunnox.C14

@[simp] theorem cell_setCell_self (σ : St) (t : Tier) (x : Cell) : (σ.setCell t x).cell t = x := by
  cases t <;> rfl

theorem p_setCell (σ : St) (t : Tier) (x : Cell) (h : t ≠ .persistent) : (σ.setCell t x).p = σ.p := by
  cases t <;> first | rfl | exact absurd rfl h

@[simp] theorem lock_setCell (σ : St) (t : Tier) (x : Cell) : (σ.setCell t x).lock = σ.lock := by
  cases t <;> rfl

@[simp] theorem nver_setCell (σ : St) (t : Tier) (x : Cell) : (σ.setCell t x).nver = σ.nver := by
  cases t <;> rfl

theorem cell_ck_of_p (σ : St) (t : Tier) (y : Cell) (n : Nat) (l : Option Nat) (h : t ≠ .persistent) :
    ({ σ with p := y, nver := n, lock := l } : St).cell t = σ.cell t := by
  cases t <;> first | rfl | exact absurd rfl h

@[simp] theorem cell_lock (σ : St) (t : Tier) (l : Option Nat) : ({ σ with lock := l } : St).cell t = σ.cell t := by
  cases t <;> rfl

@[simp] theorem cell_unlock (σ : St) (t : Tier) : (unlock σ).cell t = σ.cell t := by
  cases t <;> rfl

@[simp] theorem p_unlock (σ : St) : (unlock σ).p = σ.p := rfl
@[simp] theorem lock_unlock (σ : St) : (unlock σ).lock = none := rfl
@[simp] theorem nver_unlock (σ : St) : (unlock σ).nver = σ.nver := rfl

@[simp] theorem view_zero (σ : St) : view 0 σ = σ := rfl

theorem evictCell_zero (t : Tier) (σ : St) :
    evictCell 0 t σ = σ.setCell t ⟨none, 0, (σ.cell t).ver⟩ := rfl

/-- Every call is issued on node 0 (one facade instance). -/
def Nodes0 (cfg : Cfg) : Prop := ∀ t ∈ cfg.threads, t.node = 0

/-- Single-node form of `stepCfg_cases` for a thread step. -/
theorem stepCfg_cases0 (V : Variant) (R : Route) (cfg : Cfg) (e : Entry) (hn : Nodes0 cfg) :
    stepCfg V R cfg e = { cfg with now := cfg.now + 1 } ∨
    (∃ t, e.evict = some t ∧
      stepCfg V R cfg e = { cfg with st := evictCell e.tid t cfg.st, now := cfg.now + 1 }) ∨
    ∃ th, cfg.threads[e.tid]? = some th ∧ enabled V.lk cfg.st e.tid th = true ∧
      stepCfg V R cfg e =
        { st := (stepThread V.lk R e.tid e.fault cfg.st
                  { th with inv := some (th.inv.getD cfg.now), ret := some cfg.now }).st
          threads := (cfg.threads.set e.tid (stepThread V.lk R e.tid e.fault cfg.st
                  { th with inv := some (th.inv.getD cfg.now), ret := some cfg.now }).th) ++
                  ((stepThread V.lk R e.tid e.fault cfg.st
                  { th with inv := some (th.inv.getD cfg.now), ret := some cfg.now }).spawn.map
                    (fun t => { t with node := th.node })).toList
          now := cfg.now + 1
          trace := (stepThread V.lk R e.tid e.fault cfg.st
                  { th with inv := some (th.inv.getD cfg.now), ret := some cfg.now }).evs.reverse ++ cfg.trace } := by
  rcases stepCfg_cases V R cfg e with h | h | ⟨th, _, hth, hen, heq⟩
  · exact Or.inl h
  · exact Or.inr (Or.inl h)
  · have h0 : th.node = 0 := hn th (List.mem_of_getElem? hth)
    have hv : ∀ σ : St, view th.node σ = σ := by intro σ; rw [h0]; rfl
    simp only [hv] at hen heq
    exact Or.inr (Or.inr ⟨th, hth, hen, heq⟩)

theorem lt_of_getElem? {α} {l : List α} {i : Nat} {a : α} (h : l[i]? = some a) : i < l.length := by
  rcases Nat.lt_or_ge i l.length with h1 | h1
  · exact h1
  · rw [List.getElem?_eq_none h1] at h; cases h

theorem getElem?_set_nil {α} (l : List α) (i j : Nat) (a : α) :
    (l.set i a ++ ([] : List α))[j]? = if i = j ∧ i < l.length then some a else l[j]? := by
  simp only [List.append_nil, List.getElem?_set]
  by_cases h : i = j
  · subst h
    by_cases h2 : i < l.length
    · simp [h2]
    · simp [h2, List.getElem?_eq_none (Nat.le_of_not_lt h2)]
  · simp [h]

end Tunnox.C14

namespace Tunnox.C14

theorem writeStep_spawn (R : Route) (tid : Nat) (ft : Option Tier) (σ : St) (th : Thread) (v : Val) (ttl : Nat) :
    (writeStep R tid ft σ th v ttl).spawn = none := by
  unfold writeStep; split <;> split <;> rfl

set_option maxHeartbeats 1000000 in
/-- The repaired code starts no goroutine. -/
theorem stepThread_spawn_repaired (R : Route) (tid : Nat) (ft : Option Tier) (σ : St) (th : Thread) :
    (stepThread true R tid ft σ th).spawn = none := by
  obtain ⟨op, pc, inv, ret, res, cver, rver, node⟩ := th
  cases op <;> cases pc <;>
    first
    | exact writeStep_spawn ..
    | rfl
    | (simp only [stepThread]
       repeat' split
       all_goals first | exact writeStep_spawn .. | rfl | simp_all)

theorem getElem?_set_nil' {α} (l : List α) (i j : Nat) (a : α) (hi : i < l.length) :
    (l.set i a ++ ([] : List α))[j]? = if i = j then some a else l[j]? := by
  rw [getElem?_set_nil]
  by_cases h : i = j
  · subst h; simp [hi]
  · simp [h]

/-- Persistent-tier failures only. -/
def PFault (ft : Option Tier) : Prop := ft = none ∨ ft = some .persistent

theorem fails_ck_false {ft : Option Tier} {t : Tier} (h : PFault ft) (ht : t ≠ .persistent) : fails ft t = false := by
  rcases h with h | h <;> subst h <;> simp [fails]
  exact fun h => ht h.symm


theorem writeStep_op (R : Route) (tid : Nat) (ft : Option Tier) (σ : St) (th : Thread) (v : Val) (ttl : Nat) :
    (writeStep R tid ft σ th v ttl).th.op = th.op := by
  unfold writeStep; split <;> split <;> rfl

theorem listCont_op (R : Route) (op : Op) (σ : St) (th : Thread) (cur : Option Val) :
    (listCont op σ th R cur).2.op = th.op := (listCont_ok R op σ th cur).1

set_option maxHeartbeats 1000000 in
/-- A step never changes which call a thread performs. -/
theorem stepThread_op (lk : Bool) (R : Route) (tid : Nat) (ft : Option Tier) (σ : St) (th : Thread) :
    (stepThread lk R tid ft σ th).th.op = th.op := by
  obtain ⟨op, pc, inv, ret, res, cver, rver, node⟩ := th
  cases op <;> cases pc <;>
    first
    | exact writeStep_op ..
    | rfl
    | (simp only [stepThread]
       repeat' split
       all_goals first | exact writeStep_op .. | exact listCont_op .. | rfl | simp_all [finish])

theorem stepCfg_ops_repaired (R : Route) (cfg : Cfg) (e : Entry) :
    (stepCfg .repaired R cfg e).threads.map (·.op) = cfg.threads.map (·.op) := by
  rcases stepCfg_cases .repaired R cfg e with heq | ⟨t, _, heq⟩ | ⟨th, _, hth, _, heq⟩
  · rw [heq]
  · rw [heq]
  · rw [heq]
    simp only [Variant.lk]
    rw [stepThread_spawn_repaired]
    simp only [Option.map_none, Option.toList, List.append_nil]
    apply List.ext_getElem?
    intro j
    simp only [List.getElem?_map, List.getElem?_set]
    by_cases hj : e.tid = j
    · subst hj
      have hlt := lt_of_getElem? hth
      have hg : cfg.threads[e.tid] = th := by
        rw [List.getElem?_eq_getElem hlt] at hth; exact Option.some.inj hth
      simp [hlt, stepThread_op, hg]
    · simp [hj]

theorem run_ops_repaired (R : Route) (sch : List Entry) (cfg : Cfg) :
    (run .repaired R cfg sch).threads.map (·.op) = cfg.threads.map (·.op) := by
  induction sch generalizing cfg with
  | nil => rfl
  | cons e rest ih =>
    show (run .repaired R (stepCfg .repaired R cfg e) rest).threads.map (·.op) = _
    rw [ih, stepCfg_ops_repaired]


theorem writeStep_node (R : Route) (tid : Nat) (ft : Option Tier) (σ : St) (th : Thread) (v : Val) (ttl : Nat) :
    (writeStep R tid ft σ th v ttl).th.node = th.node := by
  unfold writeStep; split <;> split <;> rfl

theorem listCont_node (R : Route) (op : Op) (σ : St) (th : Thread) (cur : Option Val) :
    (listCont op σ th R cur).2.node = th.node := by
  unfold listCont
  cases cur with
  | none => cases op <;> simp [finish]
  | some v =>
    simp only
    cases decodeList v <;> simp [finish]

set_option maxHeartbeats 1000000 in
/-- A step never moves a call to another node. -/
theorem stepThread_node (lk : Bool) (R : Route) (tid : Nat) (ft : Option Tier) (σ : St) (th : Thread) :
    (stepThread lk R tid ft σ th).th.node = th.node := by
  obtain ⟨op, pc, inv, ret, res, cver, rver, node⟩ := th
  cases op <;> cases pc <;>
    first
    | exact writeStep_node ..
    | rfl
    | (simp only [stepThread]
       repeat' split
       all_goals first | exact writeStep_node .. | exact listCont_node .. | rfl | simp_all [finish])

theorem nodes0_stepCfg (R : Route) (cfg : Cfg) (e : Entry) (hn : Nodes0 cfg) :
    Nodes0 (stepCfg .repaired R cfg e) := by
  rcases stepCfg_cases .repaired R cfg e with heq | ⟨t, _, heq⟩ | ⟨th, _, hth, _, heq⟩
  · rw [heq]; exact hn
  · rw [heq]; exact hn
  · rw [heq]
    simp only [Variant.lk]
    rw [stepThread_spawn_repaired]
    simp only [Option.map_none, Option.toList, List.append_nil]
    intro t ht
    rcases List.mem_or_eq_of_mem_set ht with ht | ht
    · exact hn t ht
    · subst ht
      rw [stepThread_node]
      exact hn th (List.mem_of_getElem? hth)

theorem mkThreads_nil (ops : List Op) : mkThreads ops [] = ops.map (fun o => { op := o }) := by
  induction ops with
  | nil => rfl
  | cons o os ih => simp [mkThreads, ih]

theorem modelN_nil (V : Variant) (R : Route) (c s p : Option Val) (ops : List Op) (sch : List Entry) :
    modelN V R c s p ops [] sch = model V R c s p ops sch := by
  unfold modelN model initCfgN initCfg
  rw [mkThreads_nil]

theorem nodes0_init (c s p : Option Val) (ops : List Op) : Nodes0 (initCfg c s p ops) := by
  intro t ht
  simp only [initCfg, List.mem_map] at ht
  obtain ⟨o, _, rfl⟩ := ht
  rfl


theorem cell_setCell_ne (σ : St) (t t' : Tier) (x : Cell) (h : t ≠ t') : (σ.setCell t x).cell t' = σ.cell t' := by
  cases t <;> cases t' <;> first | rfl | exact absurd rfl h

/-- Evictions are environment steps on a cache tier of node 0, and only where a persistent tier backs the
cache (elsewhere the "cache" holds the only copy and expiry is a deletion by TTL). -/
def EvictOK (R : Route) (e : Entry) : Prop :=
  ∀ t, e.evict = some t → e.tid = 0 ∧ t ≠ .persistent ∧ R.pe = true

end Tunnox.C14
