import TunnoxModel.Model.C17Ctr
/-! C17: with an atomic release the counter IS the number of holders, at every instruction. -/
namespace Tunnox.C17Ctr

@[simp] theorem upd_self (f : Nat → PC) (i : Nat) (p : PC) : upd f i p i = p := by simp [upd]
theorem upd_ne (f : Nat → PC) (i j : Nat) (p : PC) (h : j ≠ i) : upd f i p j = f j := by simp [upd, h]

structure Inv (limit : Nat) (c : Cfg) : Prop where
  eq : c.cnt = c.held
  cap : limit = 0 ∨ c.cnt ≤ limit
  chk : ∀ i snap, c.pc i = .loaded snap → limit = 0 ∨ snap < limit
  nrl : ∀ i snap, c.pc i ≠ .relLoaded snap
  good : holds limit c.trace = true

theorem holds_snoc (limit : Nat) (tr : List Ev) (e : Ev) :
    holds limit (tr ++ [e]) = (holds limit tr && holds limit [e]) := by
  simp [holds, List.all_append]

theorem nrl_upd {c : Cfg} (h : ∀ i snap, c.pc i ≠ .relLoaded snap) (i : Nat) (p : PC) (hp : ∀ s, p ≠ .relLoaded s) :
    ∀ j snap, upd c.pc i p j ≠ .relLoaded snap := by
  intro j snap
  by_cases e : j = i
  · subst e; rw [upd_self]; exact hp snap
  · rw [upd_ne _ _ _ _ e]; exact h j snap

theorem chk_upd {limit : Nat} {c : Cfg} (h : ∀ i snap, c.pc i = .loaded snap → limit = 0 ∨ snap < limit) (i : Nat) (p : PC)
    (hp : ∀ s, p = .loaded s → limit = 0 ∨ s < limit) :
    ∀ j snap, upd c.pc i p j = .loaded snap → limit = 0 ∨ snap < limit := by
  intro j snap hj
  by_cases e : j = i
  · subst e; rw [upd_self] at hj; exact hp snap hj
  · rw [upd_ne _ _ _ _ e] at hj; exact h j snap hj

theorem inv_step {limit : Nat} {c : Cfg} (h : Inv limit c) (i : Nat) : Inv limit (step true limit c i) := by
  unfold step
  split
  · cases hfull : full limit c.cnt with
    | true =>
      simp only [if_true]
      exact ⟨h.eq, h.cap, h.chk, h.nrl, by rw [holds_snoc, h.good]; rfl⟩
    | false =>
      simp only [Bool.false_eq_true, if_false]
      refine ⟨h.eq, h.cap, chk_upd h.chk i _ ?_, nrl_upd h.nrl i _ (by intro s hh; cases hh), h.good⟩
      intro s hs
      simp only [PC.loaded.injEq] at hs
      rw [← hs]
      unfold full at hfull
      simp at hfull
      rcases Nat.eq_zero_or_pos limit with hz | hp
      · left; exact hz
      · right; exact hfull hp
  · rename_i snap hpc
    by_cases heq : c.cnt = snap
    · simp only [heq, if_true]
      have hroom := h.chk i snap hpc
      have he := h.eq
      refine ⟨by simp only; omega, ?_, chk_upd h.chk i _ (by intro s hh; cases hh), nrl_upd h.nrl i _ (by intro s hh; cases hh), ?_⟩
      · rcases hroom with hz | hl
        · left; exact hz
        · right; simp only; omega
      · rw [holds_snoc, h.good]
        simp only [holds, List.all_cons, List.all_nil, Bool.and_true, Bool.true_and]
        rcases hroom with hz | hl
        · simp [hz]
        · simp only [Bool.or_eq_true, beq_iff_eq, decide_eq_true_eq]
          right; omega
    · simp only [heq, if_false]
      exact ⟨h.eq, h.cap, chk_upd h.chk i _ (by intro s hh; cases hh), nrl_upd h.nrl i _ (by intro s hh; cases hh), h.good⟩
  · simp only [if_true]
    have he := h.eq
    refine ⟨by simp only; omega, ?_, chk_upd h.chk i _ (by intro s hh; cases hh), nrl_upd h.nrl i _ (by intro s hh; cases hh),
      by rw [holds_snoc, h.good]; rfl⟩
    rcases h.cap with hz | hl
    · left; exact hz
    · right; simp only; omega
  · rename_i snap hpc
    exact absurd hpc (h.nrl i snap)

theorem inv_run {limit : Nat} (σ : List Nat) (c : Cfg) (h : Inv limit c) : Inv limit (run true limit c σ) := by
  induction σ generalizing c with
  | nil => exact h
  | cons t r ih =>
    simp only [run, List.foldl_cons]
    exact ih _ (inv_step h t)

theorem inv_init (limit pre : Nat) (hpre : limit = 0 ∨ pre ≤ limit) : Inv limit (init pre) := by
  refine ⟨rfl, ?_, ?_, ?_, rfl⟩
  · rcases hpre with hz | hl
    · left; exact hz
    · right; simp [init]; omega
  · intro i s hh
    simp only [init] at hh
    split at hh <;> cases hh
  · intro i s hh
    simp only [init] at hh
    split at hh <;> cases hh

end Tunnox.C17Ctr
