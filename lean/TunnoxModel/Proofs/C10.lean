import TunnoxModel.Spec.C10
import TunnoxModel.Proofs.Src
/-! Helper lemmas for C10: the frame codec (both directions), chunk independence of the decoder. -/
namespace Tunnox.C10
open Gen

/-! ### bytes and the length field -/

theorem be32_length (n : Nat) : (be32 n).length = 4 := rfl

theorem unbe32_be32 (n : Nat) (h : n < 4294967296) : unbe32 (be32 n) = n := by
  simp [unbe32, be32]; omega

theorem ofNat_toNat (a : UInt8) : UInt8.ofNat a.toNat = a := by
  simp

theorem be32_unbe32 (bs : Bytes) (h : bs.length = 4) : be32 (unbe32 bs) = bs := by
  match bs, h with
  | [a, b, c, d], _ =>
    have ha := a.toNat_lt
    have hb := b.toNat_lt
    have hc := c.toNat_lt
    have hd := d.toNat_lt
    simp only [unbe32, be32]
    have e1 : (a.toNat * 16777216 + b.toNat * 65536 + c.toNat * 256 + d.toNat) / 16777216 % 256 = a.toNat := by omega
    have e2 : (a.toNat * 16777216 + b.toNat * 65536 + c.toNat * 256 + d.toNat) / 65536 % 256 = b.toNat := by omega
    have e3 : (a.toNat * 16777216 + b.toNat * 65536 + c.toNat * 256 + d.toNat) / 256 % 256 = c.toNat := by omega
    have e4 : (a.toNat * 16777216 + b.toNat * 65536 + c.toNat * 256 + d.toNat) % 256 = d.toNat := by omega
    rw [e1, e2, e3, e4, ofNat_toNat, ofNat_toNat, ofNat_toNat, ofNat_toNat]

theorem max_lt : crossnode.MaxFrameSize < 4294967296 := by decide

theorem hs_eq : crossnode.FrameHeaderSize = idLen + 1 + 4 := by decide

theorem header_length (id : Bytes) (ty n : Nat) (h : id.length = idLen) :
    (header id ty n).length = crossnode.FrameHeaderSize := by
  simp [header, be32_length, h, hs_eq]

theorem encode_length (f : Frame) (h : f.id.length = idLen) :
    (encode f).length = crossnode.FrameHeaderSize + f.data.length := by
  simp [encode, header_length _ _ _ h]

theorem encode_length_ge (f : Frame) : 1 ≤ (encode f).length := by
  simp [encode, header]; omega

theorem encodeAll_cons (f : Frame) (fs : List Frame) : encodeAll (f :: fs) = encode f ++ encodeAll fs := by
  simp [encodeAll]

theorem encodeAll_append (a b : List Frame) : encodeAll (a ++ b) = encodeAll a ++ encodeAll b := by
  simp [encodeAll]

theorem encodeAll_length_ge (fs : List Frame) : fs.length ≤ (encodeAll fs).length := by
  induction fs with
  | nil => simp [encodeAll]
  | cons f fs ih =>
    rw [encodeAll_cons, List.length_append, List.length_cons]
    have := encode_length_ge f
    omega

/-! ### splitting a header -/

theorem header_take (id : Bytes) (ty n : Nat) (h : id.length = idLen) :
    (header id ty n).take idLen = id := by
  simp [header, ← h]

theorem header_get (id : Bytes) (ty n : Nat) (h : id.length = idLen) (ht : ty < 256) :
    ((header id ty n).getD idLen 0).toNat = ty := by
  have : (header id ty n).getD idLen 0 = UInt8.ofNat ty := by
    simp [header, List.getD, ← h]
  rw [this]
  simp; omega

theorem header_drop (id : Bytes) (ty n : Nat) (h : id.length = idLen) :
    (header id ty n).drop (idLen + 1) = be32 n := by
  have : header id ty n = (id ++ [UInt8.ofNat ty]) ++ be32 n := by simp [header]
  rw [this, List.drop_left' (by simp [h])]

/-- A 21-byte list is its id field, its type byte and its length field. -/
theorem split_header (h : Bytes) (hl : h.length = crossnode.FrameHeaderSize) :
    header (h.take idLen) (h.getD idLen 0).toNat (unbe32 (h.drop (idLen + 1))) = h := by
  have h4 : (h.drop (idLen + 1)).length = 4 := by simp [hl, hs_eq]
  unfold header
  rw [be32_unbe32 _ h4, ofNat_toNat]
  have hlt : idLen < h.length := by rw [hl, hs_eq]; omega
  have hg : h.getD idLen 0 = h[idLen] := by simp [List.getD, hlt]
  rw [hg]
  conv => rhs; rw [← List.take_append_drop idLen h]
  congr 1
  exact (List.drop_eq_getElem_cons hlt).symm

/-! ### parse ∘ encode and encode ∘ parse -/

theorem parse_encode (f : Frame) (hwf : f.WF) (rest : Bytes) (tl : Tail) :
    parseFrame (encode f ++ rest) tl = (.frame f, rest, crossnode.FrameHeaderSize + f.data.length) := by
  obtain ⟨hid, hty, hlen⟩ := hwf
  have hhl := header_length f.id f.ty f.data.length hid
  have e : encode f ++ rest = header f.id f.ty f.data.length ++ (f.data ++ rest) := by
    simp [encode]
  have hnl : ¬ (encode f ++ rest).length < crossnode.FrameHeaderSize := by
    rw [e, List.length_append, hhl]; omega
  have htake : (encode f ++ rest).take crossnode.FrameHeaderSize = header f.id f.ty f.data.length := by
    rw [e, ← hhl, List.take_left']; rfl
  have hdrop : (encode f ++ rest).drop crossnode.FrameHeaderSize = f.data ++ rest := by
    rw [e, ← hhl, List.drop_left']; rfl
  have hun : unbe32 ((header f.id f.ty f.data.length).drop (idLen + 1)) = f.data.length := by
    rw [header_drop _ _ _ hid, unbe32_be32 _ (Nat.lt_of_le_of_lt hlen max_lt)]
  unfold parseFrame
  simp only [hnl, if_false, htake, hdrop, hun]
  have h1 : ¬ f.data.length > crossnode.MaxFrameSize := Nat.not_lt.mpr hlen
  have h2 : ¬ (f.data ++ rest).length < f.data.length := by simp
  simp only [h1, h2, if_false, List.take_left', List.drop_left']
  have hf : frameOfHeader (header f.id f.ty f.data.length) f.data = f := by
    unfold frameOfHeader
    rw [header_take _ _ _ hid, header_get _ _ _ hid hty]
  rw [hf]

/-- If the decoder returns a frame, the input was that frame's encoding followed by the rest. -/
theorem parse_frame_inv (bs : Bytes) (tl : Tail) (f : Frame) (rest : Bytes) (a : Nat)
    (h : parseFrame bs tl = (.frame f, rest, a)) :
    bs = encode f ++ rest ∧ f.WF ∧ a = crossnode.FrameHeaderSize + f.data.length := by
  unfold parseFrame at h
  by_cases h1 : bs.length < crossnode.FrameHeaderSize
  · simp only [h1, if_true] at h
    simp at h
  · simp only [h1, if_false] at h
    by_cases h2 : unbe32 ((bs.take crossnode.FrameHeaderSize).drop (idLen + 1)) > crossnode.MaxFrameSize
    · simp only [h2, if_true] at h
      simp at h
    · simp only [h2, if_false] at h
      by_cases h3 : (bs.drop crossnode.FrameHeaderSize).length <
          unbe32 ((bs.take crossnode.FrameHeaderSize).drop (idLen + 1))
      · simp only [h3, if_true] at h
        simp at h
      · simp only [h3, if_false, Prod.mk.injEq, FOut.frame.injEq] at h
        obtain ⟨hf, hr, ha⟩ := h
        have hl : (bs.take crossnode.FrameHeaderSize).length = crossnode.FrameHeaderSize := by
          simp; omega
        have hdl : ((bs.drop crossnode.FrameHeaderSize).take
            (unbe32 ((bs.take crossnode.FrameHeaderSize).drop (idLen + 1)))).length =
            unbe32 ((bs.take crossnode.FrameHeaderSize).drop (idLen + 1)) := by
          rw [List.length_drop] at h3
          rw [List.length_take, List.length_drop]
          exact Nat.min_eq_left (Nat.le_of_not_lt h3)
        subst hf
        refine ⟨?_, ?_, ?_⟩
        · subst hr
          simp only [encode, frameOfHeader, hdl]
          rw [split_header _ hl, List.append_assoc, List.take_append_drop, List.take_append_drop]
        · refine ⟨?_, ?_, ?_⟩
          · simp only [frameOfHeader, List.length_take, hl]
            rw [hs_eq]; simp [idLen]
          · simp only [frameOfHeader]; exact UInt8.toNat_lt _
          · simp only [frameOfHeader, hdl]; omega
        · simp only [frameOfHeader, hdl]; omega

/-! ### the decoder depends only on the flat content -/

theorem readFrame_flat (s : Src) :
    (readFrame s).out = (parseFrame s.flat s.tail).1 ∧
    (readFrame s).rest.flat = (parseFrame s.flat s.tail).2.1 ∧
    (readFrame s).alloc = (parseFrame s.flat s.tail).2.2 ∧
    (readFrame s).rest.tail = s.tail := by
  unfold readFrame parseFrame
  rw [readFull_flat]
  by_cases h1 : crossnode.FrameHeaderSize ≤ s.flat.length
  · have h1' : ¬ s.flat.length < crossnode.FrameHeaderSize := Nat.not_lt.mpr h1
    simp only [h1, if_true, h1', if_false]
    have hok := readFull_flat s crossnode.FrameHeaderSize
    rw [if_pos h1] at hok
    have hs1 := readFull_ok_rest_flat s _ _ _ hok
    generalize (⟨(readFullChunks s.pending crossnode.FrameHeaderSize).2.1, s.tail⟩ : Src) = s1 at hs1
    obtain ⟨-, hs1f, hs1t, -⟩ := hs1
    by_cases h2 : unbe32 ((s.flat.take crossnode.FrameHeaderSize).drop (idLen + 1)) > crossnode.MaxFrameSize
    · simp only [h2, if_true]
      exact ⟨trivial, hs1f, trivial, hs1t⟩
    · simp only [h2, if_false]
      by_cases h0 : unbe32 ((s.flat.take crossnode.FrameHeaderSize).drop (idLen + 1)) > 0
      · simp only [h0, if_true]
        rw [readFull_flat, hs1f]
        by_cases h3 : unbe32 ((s.flat.take crossnode.FrameHeaderSize).drop (idLen + 1)) ≤
            (s.flat.drop crossnode.FrameHeaderSize).length
        · have h3' : ¬ (s.flat.drop crossnode.FrameHeaderSize).length <
              unbe32 ((s.flat.take crossnode.FrameHeaderSize).drop (idLen + 1)) := Nat.not_lt.mpr h3
          simp only [h3, if_true, h3', if_false]
          have hok2 := readFull_flat s1 (unbe32 ((s.flat.take crossnode.FrameHeaderSize).drop (idLen + 1)))
          rw [hs1f, if_pos h3] at hok2
          have hs2 := readFull_ok_rest_flat s1 _ _ _ hok2
          refine ⟨trivial, ?_, trivial, ?_⟩
          · rw [hs2.2.1, hs1f]
          · rw [hs1t]
        · have h3' : (s.flat.drop crossnode.FrameHeaderSize).length <
              unbe32 ((s.flat.take crossnode.FrameHeaderSize).drop (idLen + 1)) := Nat.lt_of_not_le h3
          simp only [h3, if_false, h3', if_true]
          exact ⟨by rw [hs1t], rfl, trivial, by rw [hs1t]⟩
      · have hz : unbe32 ((s.flat.take crossnode.FrameHeaderSize).drop (idLen + 1)) = 0 := by omega
        simp only [if_false, hz, Nat.lt_irrefl, Nat.not_lt_zero, List.take_zero, List.drop_zero, Nat.add_zero]
        exact ⟨trivial, hs1f, trivial, hs1t⟩
  · have h1' : s.flat.length < crossnode.FrameHeaderSize := Nat.lt_of_not_le h1
    simp only [h1, if_false, h1', if_true]
    exact ⟨trivial, rfl, trivial, trivial⟩

theorem readAll_flat (k : Nat) (s : Src) : readAll k s = parseAll k s.flat s.tail := by
  induction k generalizing s with
  | zero => simp [readAll, parseAll]
  | succ k ih =>
    obtain ⟨h1, h2, h3, h4⟩ := readFrame_flat s
    unfold readAll parseAll
    simp only
    rw [h1]
    cases hp : (parseFrame s.flat s.tail).1 with
    | fail e => simp [h2, h3]
    | frame f => simp [ih, h2, h3, h4]

/-! ### the decoder property on flat input -/

theorem parse_fail_stop (bs : Bytes) (tl : Tail) (e : FErr) (h : (parseFrame bs tl).1 = .fail e) :
    e = stopFor bs tl ∧ (parseFrame bs tl).2.2 ≤ crossnode.FrameHeaderSize + crossnode.MaxFrameSize := by
  unfold parseFrame at h ⊢
  unfold stopFor
  by_cases h1 : bs.length < crossnode.FrameHeaderSize
  · simp only [h1, if_true] at h ⊢
    simp only [FOut.fail.injEq] at h
    exact ⟨h.symm, Nat.le_add_right _ _⟩
  · simp only [h1, if_false] at h ⊢
    by_cases h2 : unbe32 ((bs.take crossnode.FrameHeaderSize).drop (idLen + 1)) > crossnode.MaxFrameSize
    · simp only [h2, if_true] at h ⊢
      simp only [FOut.fail.injEq] at h
      exact ⟨h.symm, Nat.le_add_right _ _⟩
    · simp only [h2, if_false] at h ⊢
      by_cases h3 : (bs.drop crossnode.FrameHeaderSize).length <
          unbe32 ((bs.take crossnode.FrameHeaderSize).drop (idLen + 1))
      · simp only [h3, if_true] at h ⊢
        simp only [FOut.fail.injEq] at h
        exact ⟨h.symm, Nat.add_le_add_left (Nat.le_of_not_lt h2) _⟩
      · simp only [h3, if_false] at h
        simp at h

theorem holdsDec_nil (bs : Bytes) (tl : Tail) (a l : Nat)
    (ha : a ≤ crossnode.FrameHeaderSize + crossnode.MaxFrameSize) :
    holdsDec bs tl ⟨[], stopFor bs tl, l, a⟩ = true := by
  have h1 : ([] : Bytes).isPrefixOf bs = true := by cases bs <;> rfl
  simp only [holdsDec, encodeAll, List.map_nil, List.flatten_nil, List.all_nil, h1, List.length_nil,
    List.drop_zero, beq_self_eq_true, Bool.true_and, decide_eq_true_eq]
  simp only [allocSlack]
  exact Nat.le_trans ha (Nat.le_add_right _ _)

theorem holdsDec_cons (f : Frame) (hwf : f.WF) (rest : Bytes) (tl : Tail) (o : DecObs) (a : Nat)
    (ha : a ≤ crossnode.FrameHeaderSize + crossnode.MaxFrameSize)
    (h : holdsDec rest tl o = true) :
    holdsDec (encode f ++ rest) tl ⟨f :: o.frames, o.stop, o.leftover, max a o.alloc⟩ = true := by
  simp only [holdsDec, Bool.and_eq_true, decide_eq_true_eq, List.all_eq_true, beq_iff_eq] at h ⊢
  obtain ⟨⟨⟨h1, h2⟩, h3⟩, h4⟩ := h
  refine ⟨⟨⟨?_, ?_⟩, ?_⟩, ?_⟩
  · intro x hx
    rcases List.mem_cons.mp hx with hx | hx
    · subst hx; exact hwf
    · exact h1 x hx
  · rw [encodeAll_cons, List.isPrefixOf_iff_prefix, List.prefix_append_right_inj,
      ← List.isPrefixOf_iff_prefix]
    exact h2
  · rw [encodeAll_cons, List.length_append, ← List.drop_drop, List.drop_left']
    · exact h3
    · rfl
  · simp only [allocSlack] at h4 ⊢
    exact Nat.max_le.mpr ⟨Nat.le_trans ha (Nat.le_add_right _ _), h4⟩

/-- Every byte string, with enough fuel: the flat decoder's observation satisfies the property. -/
theorem parseAll_holds (k : Nat) (bs : Bytes) (tl : Tail) (hk : bs.length < k) :
    holdsDec bs tl (parseAll k bs tl) = true := by
  induction k generalizing bs with
  | zero => omega
  | succ k ih =>
    unfold parseAll
    simp only
    cases hp : (parseFrame bs tl).1 with
    | fail e =>
      obtain ⟨he, ha⟩ := parse_fail_stop bs tl e hp
      simp only
      rw [he]
      exact holdsDec_nil bs tl _ _ ha
    | frame f =>
      have hfull : parseFrame bs tl = (.frame f, (parseFrame bs tl).2.1, (parseFrame bs tl).2.2) := by
        rw [← hp]
      obtain ⟨hbs, hwf, ha⟩ := parse_frame_inv bs tl f _ _ hfull
      have hrl : (parseFrame bs tl).2.1.length < k := by
        have hl := congrArg List.length hbs
        rw [List.length_append] at hl
        have := encode_length_ge f
        omega
      have hrec := ih (parseFrame bs tl).2.1 hrl
      have hal : (parseFrame bs tl).2.2 ≤ crossnode.FrameHeaderSize + crossnode.MaxFrameSize := by
        rw [ha]; exact Nat.add_le_add_left hwf.2.2 _
      simp only
      have := holdsDec_cons f hwf _ tl _ _ hal hrec
      rw [← hbs] at this
      exact this

/-! ### round trip of frame sequences -/

theorem parseAll_encodeAll (fs : List Frame) (hwf : ∀ f ∈ fs, f.WF) (tl : Tail) (k : Nat) (hk : fs.length < k) :
    (parseAll k (encodeAll fs) tl).frames = fs ∧
    (parseAll k (encodeAll fs) tl).stop = (if tl == .eof then .eof else .header tl) ∧
    (parseAll k (encodeAll fs) tl).leftover = 0 ∧
    (parseAll k (encodeAll fs) tl).alloc ≤ crossnode.FrameHeaderSize + crossnode.MaxFrameSize := by
  induction fs generalizing k with
  | nil =>
    cases k with
    | zero => omega
    | succ k =>
      have : parseFrame [] tl = (.fail (if tl == .eof then .eof else .header tl), [], crossnode.FrameHeaderSize) := by
        simp [parseFrame, crossnode.FrameHeaderSize]
      simp [encodeAll, parseAll, this]
  | cons f fs ih =>
    cases k with
    | zero => omega
    | succ k =>
      have hf := hwf f (List.mem_cons_self ..)
      have hfs : ∀ g ∈ fs, g.WF := fun g hg => hwf g (List.mem_cons_of_mem _ hg)
      have hk' : fs.length < k := by simp at hk; omega
      obtain ⟨i1, i2, i3, i4⟩ := ih hfs k hk'
      rw [encodeAll_cons]
      unfold parseAll
      simp only [parse_encode f hf (encodeAll fs) tl]
      refine ⟨by rw [i1], i2, i3, ?_⟩
      have := hf.2.2
      omega

theorem writeAll_spec (fs : List Frame) :
    (writeAll fs).1 = fs.map (fun f => decide (f.data.length ≤ crossnode.MaxFrameSize)) ∧
    (writeAll fs).2 = encodeAll (fs.filter (fun f => decide (f.data.length ≤ crossnode.MaxFrameSize))) := by
  induction fs with
  | nil => simp [writeAll, encodeAll]
  | cons f fs ih =>
    by_cases h : f.data.length ≤ crossnode.MaxFrameSize
    · have h' : ¬ f.data.length > crossnode.MaxFrameSize := Nat.not_lt.mpr h
      simp [writeAll, writeFrame, h, h', ih.1, ih.2, encodeAll]
    · have h' : f.data.length > crossnode.MaxFrameSize := Nat.lt_of_not_le h
      simp [writeAll, writeFrame, h, h', ih.1, ih.2]

end Tunnox.C10
