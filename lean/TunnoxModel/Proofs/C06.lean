import TunnoxModel.Spec.C06
/-! C06: invariants of the interleaving semantics (repaired variant) and their preservation. -/
namespace Tunnox.C06
open Gen

/-- The thread holds the claim. -/
def Pc.inCS : Pc → Bool
  | .claimed | .checked | .decided | .created | .rollback | .revUpd | .releasing => true
  | _ => false

/-- Between the validity check and the end of the write-back / roll-back. -/
def Pc.critical : Pc → Bool
  | .checked | .decided | .created | .revUpd | .rollback => true
  | _ => false

def Pc.hasPending : Pc → Bool
  | .created | .rollback => true
  | _ => false

/-- What a thread knows about the store (all clauses but the last are guarded by "holds the claim"). -/
structure TInv (p : Params) (st : Store) (i : Nat) (t : Thread) : Prop where
  claim : t.pc.inCS = true → st.claim = some i
  crit : t.pc.critical = true → st.okMap = none ∧ st.revDone = false ∧ st.created = true
  pend : t.pc.hasPending = true → ∃ m, t.m = some m ∧ st.pending = some m ∧ m.owner = i ∧ m.pre = false ∧
            m.tup = (t.listener, t.laddr, p.tc, p.ta) ∧ t.loc.MappingID = some m.id
  act : (t.pc = .checked ∨ t.pc = .decided ∨ t.pc = .created ∨ t.pc = .rollback) →
            t.kind = .activate ∧ t.loc.TargetClientID = p.tc ∧ t.loc.TargetAddress = p.ta
  act2 : (t.pc = .decided ∨ t.pc = .created) → t.loc.IsActivated = true ∧ t.loc.ActivatedBy = some t.listener
  locEq : t.pc = .checked → t.loc = st.code
  rev : t.pc = .revUpd → t.kind = .revoke ∧ t.loc.IsRevoked = true ∧ t.loc.TargetClientID = p.tc ∧ t.loc.TargetAddress = p.ta
  resOk : ∀ m, t.res = some (.ok m) → st.okMap = some m ∧ m.owner = i ∧ t.kind = .activate ∧
            m.tup = (t.listener, t.laddr, p.tc, p.ta) ∧ (t.pc = .releasing ∨ t.pc = .done)
  resRok : t.res = some .rok → st.revDone = true ∧ t.kind = .revoke

/-- Facts about the store alone. -/
structure GInv (p : Params) (st : Store) : Prop where
  exact : st.maps.filter (fun m => !m.pre) = st.okMap.toList ++ st.pending.toList
  fresh : ∀ x ∈ st.maps, x.id < st.nextId
  nodup : st.maps.Pairwise (fun a b => a.id ≠ b.id)
  okRec : ∀ m, st.okMap = some m → st.created = true ∧ m.pre = false ∧
            (st.present = false ∨ (st.code.IsActivated = true ∧ st.code.ActivatedBy = some m.ListenClientID ∧ st.code.MappingID = some m.id))
  revRec : st.revDone = true → st.created = true ∧ (st.present = false ∨ st.code.IsRevoked = true)
  excl : st.okMap.isSome = true → st.revDone = false
  pres : st.present = true → st.created = true
  tgt : st.created = true → st.code.TargetClientID = p.tc ∧ st.code.TargetAddress = p.ta

/-- A request that spells the code differently never gets anything. -/
structure OInv (t : Thread) : Prop where
  noOk : ∀ m, t.res ≠ some (.ok m)
  noRok : t.res ≠ some .rok

structure Inv (p : Params) (c : Config) : Prop where
  g : GInv p c.st
  t : ∀ i t, c.ths[i]? = some t → t.isMain = true → TInv p c.st i t
  o : ∀ (i : Nat) (t : Thread), c.ths[i]? = some t → ¬ t.isMain = true → OInv t
  pendOwner : ∀ m, c.st.pending = some m → ∃ t, c.ths[m.owner]? = some t ∧ t.isMain = true ∧ t.pc.hasPending = true
  okOwner : ∀ m, c.st.okMap = some m → ∃ t, c.ths[m.owner]? = some t ∧ t.res = some (.ok m)

/-- A thread outside its critical section does not touch the store while somebody holds the claim. -/
theorem tstep_store_eq (p : Params) (st : Store) (i : Nat) (t : Thread)
    (h1 : t.pc.inCS = false) (h2 : st.claim ≠ none) : (tstepMain .repaired p st i t).1 = st := by
  cases hk : t.kind <;> cases hpc : t.pc <;> simp_all [tstepMain, Pc.inCS, claimStep] <;>
    (repeat' split) <;> simp_all

/-! ### the store invariant under each kind of store change -/

theorem ginv_claim {p st} (c : Option Nat) (h : GInv p st) : GInv p { st with claim := c } := by
  cases h; constructor <;> simp_all

/-- the age of the claim key is invisible to the invariants -/
theorem ginv_age {p st} (c : Option Nat) (a : Nat) (h : GInv p st) : GInv p { st with claim := c, claimAge := a } := by
  cases h; constructor <;> simp_all

theorem tinv_age {p st i t} (a : Nat) (h : TInv p st i t) : TInv p { st with claimAge := a } i t := by
  cases h; constructor <;> simp_all

theorem ginv_absent {p st} (h : GInv p st) : GInv p { st with present := false } := by
  cases h; constructor <;> simp_all

theorem ginv_create {p st} (m : Mapping) (h : GInv p st) (hp : st.pending = none) (hpre : m.pre = false)
    (hid : m.id = st.nextId) :
    GInv p { st with maps := st.maps ++ [m], nextId := st.nextId + 1, pending := some m } := by
  have ⟨h1, h2, h3, h4, h5, h6, h7, h8⟩ := h
  constructor <;> try (first | assumption | simpa using ‹_›)
  · simp [List.filter_append, h1, hp, hpre]
  · intro x hx
    simp only [List.mem_append, List.mem_singleton] at hx
    rcases hx with hx | hx
    · have := h2 x hx; simp only; omega
    · subst hx; simp only; omega
  · simp only [List.pairwise_append, List.pairwise_cons, List.Pairwise.nil, List.mem_singleton]
    refine ⟨h3, by simp, ?_⟩
    intro a ha b hb; subst hb; have := h2 a ha; omega

theorem ginv_rollback {p st} (m : Mapping) (h : GInv p st) (hok : st.okMap = none) (hp : st.pending = some m) :
    GInv p { st with maps := st.maps.filter (fun x => x.id != m.id), pending := none } := by
  have ⟨h1, h2, h3, h4, h5, h6, h7, h8⟩ := h
  constructor <;> try (first | assumption | simpa using ‹_›)
  · simp only [List.filter_filter, hok, Option.toList_none, List.nil_append, List.append_nil]
    have : (st.maps.filter (fun a => (!a.pre && a.id != m.id))) = (st.maps.filter (fun m => !m.pre)).filter (fun x => x.id != m.id) := by
      simp [List.filter_filter, Bool.and_comm]
    rw [this, h1, hok, hp]; simp
  · intro x hx; exact h2 x (List.mem_filter.mp hx).1
  · exact h3.sublist List.filter_sublist

theorem ginv_write {p st} (loc : TunnelConnectionCode) (h : GInv p st) (hok : st.okMap = none) (hrev : st.revDone = false)
    (hc : st.created = true) (ht : loc.TargetClientID = p.tc ∧ loc.TargetAddress = p.ta) :
    GInv p { st with present := true, sticky := false, code := loc } := by
  cases h; constructor <;> simp_all

theorem ginv_ok {p st} (m : Mapping) (h : GInv p st) (hok : st.okMap = none) (hrev : st.revDone = false)
    (hp : st.pending = some m) (hc : st.created = true) (hpre : m.pre = false)
    (hrec : st.present = false ∨ (st.code.IsActivated = true ∧ st.code.ActivatedBy = some m.ListenClientID ∧ st.code.MappingID = some m.id)) :
    GInv p { st with okMap := some m, pending := none } := by
  have ⟨h1, h2, h3, h4, h5, h6, h7, h8⟩ := h
  refine ⟨?_, h2, h3, ?_, ?_, ?_, h7, h8⟩
  · simp [h1, hok, hp]
  · intro m' hm'; simp at hm'; subst hm'; exact ⟨hc, hpre, hrec⟩
  · simp [hrev]
  · simp [hrev]

theorem ginv_rev {p st} (h : GInv p st) (hok : st.okMap = none) (hc : st.created = true)
    (hrec : st.present = false ∨ st.code.IsRevoked = true) :
    GInv p { st with revDone := true } := by
  have ⟨h1, h2, h3, h4, h5, h6, h7, h8⟩ := h
  refine ⟨h1, h2, h3, ?_, ?_, ?_, h7, h8⟩
  · simp [hok]
  · intro _; exact ⟨hc, hrec⟩
  · simp [hok]

/-! ### one step of a thread -/

structure StepOut (p : Params) (st : Store) (i : Nat) (t : Thread) (st' : Store) (t' : Thread) : Prop where
  ginv : GInv p st'
  tinv : TInv p st' i t'
  okMono : st'.okMap = st.okMap ∨ st.okMap = none
  revMono : st'.revDone = st.revDone ∨ st'.revDone = true
  created : st'.created = st.created
  pend : (st'.pending = st.pending ∧ (t.pc.hasPending = true → t'.pc.hasPending = true)) ∨ st'.pending = none ∨
         (∃ m, st'.pending = some m ∧ m.owner = i ∧ t'.pc.hasPending = true)
  okO : (st'.okMap = st.okMap ∧ (∀ m, t.res = some (.ok m) → t'.res = some (.ok m))) ∨
        (∃ m, st'.okMap = some m ∧ m.owner = i ∧ t'.res = some (.ok m))
  call : callOf t' = callOf t

theorem TInv.noOk {p st i t} (ht : TInv p st i t) (h1 : t.pc ≠ .releasing) (h2 : t.pc ≠ .done) (m : Mapping) :
    t.res ≠ some (.ok m) := by
  intro h; rcases (ht.resOk m h).2.2.2.2 with h | h <;> contradiction

/-- A call that ends with an error while it holds the claim (store untouched). -/
theorem stepOut_fail {p st i t} (r : Res) (hg : GInv p st) (ht : TInv p st i t) (hcs : t.pc.inCS = true)
    (hnp : t.pc.hasPending = false) (hno : ∀ m, t.res ≠ some (.ok m)) (hr : (∀ m, r ≠ .ok m) ∧ r ≠ .rok) :
    StepOut p st i t st (fin .repaired t r) := by
  refine ⟨hg, ?_, .inl rfl, .inl rfl, rfl, ?_, ?_, rfl⟩
  · have hc := ht.claim hcs
    constructor <;> simp_all [fin, Pc.inCS, Pc.critical, Pc.hasPending]
  · simp [hnp]
  · left; exact ⟨rfl, fun m hm => absurd hm (hno m)⟩

theorem stepOut_done {p st i t} (r : Res) (hg : GInv p st) (ht : TInv p st i t) (hpc : t.pc = .start)
    (hr : (∀ m, r ≠ .ok m) ∧ r ≠ .rok) :
    StepOut p st i t st { t with pc := .done, res := some r } := by
  refine ⟨hg, ?_, .inl rfl, .inl rfl, rfl, ?_, ?_, rfl⟩
  · constructor <;> simp_all [Pc.inCS, Pc.critical, Pc.hasPending]
  · simp [hpc, Pc.hasPending]
  · left; exact ⟨rfl, fun m hm => absurd hm (ht.noOk (by simp [hpc]) (by simp [hpc]) m)⟩

theorem step_start {p st i t} (hg : GInv p st) (ht : TInv p st i t) (hpc : t.pc = .start) :
    StepOut p st i t (tstepMain .repaired p st i t).1 (tstepMain .repaired p st i t).2 := by
  have hclaim : StepOut p st i t (claimStep st i t).1 (claimStep st i t).2 := by
    unfold claimStep
    split
    · exact stepOut_done _ hg ht hpc (by simp)
    · split
      · exact stepOut_done _ hg ht hpc (by simp)
      · rename_i hc
        have hno := ht.noOk (by simp [hpc]) (by simp [hpc])
        refine ⟨ginv_age _ _ hg, ?_, .inl rfl, .inl rfl, rfl, ?_, ?_, rfl⟩
        · have h5 := ht.resRok
          constructor <;> simp_all [Pc.inCS, Pc.critical, Pc.hasPending]
        · simp [hpc, Pc.hasPending]
        · left; exact ⟨rfl, fun m hm => absurd hm (hno m)⟩
  cases hk : t.kind <;> simp only [tstepMain, hk, hpc]
  · split
    · simpa [hk] using stepOut_done .missing hg ht hpc (by simp)
    · simpa using hclaim
  · simpa using hclaim

/-- A code that passes the validity check has not been used or revoked by anybody. -/
theorem fresh_of_valid {p st} (hg : GInv p st) (hp : st.present = true)
    (h1 : st.code.IsActivated = false) (h2 : st.code.IsRevoked = false) :
    st.okMap = none ∧ st.revDone = false ∧ st.created = true := by
  refine ⟨?_, ?_, hg.pres hp⟩
  · cases h : st.okMap with
    | none => rfl
    | some m => have := (hg.okRec m h).2.2; simp_all
  · cases h : st.revDone with
    | false => rfl
    | true => have := (hg.revRec h).2; simp_all

theorem valid_unfold {now : Nat} {c : TunnelConnectionCode} {l : Nat}
    (h : TunnelConnectionCode.CanBeActivatedBy now c l = true) :
    c.IsRevoked = false ∧ c.IsActivated = false ∧ TunnelConnectionCode.IsExpired now c = false := by
  simp only [TunnelConnectionCode.CanBeActivatedBy, TunnelConnectionCode.IsValidForActivation] at h
  cases h1 : c.IsRevoked <;> cases h2 : c.IsActivated <;> cases h3 : TunnelConnectionCode.IsExpired now c <;> simp_all

theorem step_claimed {p st i t} (hg : GInv p st) (ht : TInv p st i t) (hpc : t.pc = .claimed) :
    StepOut p st i t (tstepMain .repaired p st i t).1 (tstepMain .repaired p st i t).2 := by
  have hcs : t.pc.inCS = true := by simp [hpc, Pc.inCS]
  have hnp : t.pc.hasPending = false := by simp [hpc, Pc.hasPending]
  have hno := ht.noOk (by simp [hpc]) (by simp [hpc])
  have hclaim := ht.claim hcs
  have hrok := ht.resRok
  cases hk : t.kind <;> simp only [tstepMain, hk, hpc]
  · unfold getStepA
    split
    · exact stepOut_fail _ hg ht hcs hnp hno (by simp)
    · split
      · exact stepOut_fail _ hg ht hcs hnp hno (by simp)
      · split
        · refine stepOut_fail _ hg ht hcs hnp hno ⟨?_, ?_⟩
          · intro m; (repeat' split) <;> simp
          · (repeat' split) <;> simp
        · split
          · exact stepOut_fail _ hg ht hcs hnp hno (by simp)
          · rename_i hpres hval _
            simp only [Bool.not_eq_true, Bool.not_eq_eq_eq_not, Bool.not_true, Bool.not_false, Bool.not_not] at hpres hval
            have hv := valid_unfold (by simpa using hval)
            have hf := fresh_of_valid hg (by simpa using hpres) hv.2.1 hv.1
            have htg := hg.tgt hf.2.2
            refine ⟨hg, ?_, .inl rfl, .inl rfl, rfl, ?_, ?_, rfl⟩
            · constructor <;> simp_all [Pc.inCS, Pc.critical, Pc.hasPending]
            · simp [hpc, Pc.hasPending]
            · left; exact ⟨rfl, fun m hm => absurd hm (hno m)⟩
  · unfold getStepR
    split
    · exact stepOut_fail _ hg ht hcs hnp hno (by simp)
    · split
      · exact stepOut_fail _ hg ht hcs hnp hno (by simp)
      · split
        · exact stepOut_fail _ hg ht hcs hnp hno (by simp)
        · rename_i hpres hval
          simp only [Bool.not_eq_true, Bool.not_eq_eq_eq_not, Bool.not_true, Bool.not_false, Bool.not_not, Bool.or_eq_true, not_or] at hpres hval
          have hf := fresh_of_valid hg (by simpa using hpres) (by simpa using hval.1) (by simpa using hval.2)
          have htg := hg.tgt hf.2.2
          refine ⟨hg, ?_, .inl rfl, .inl rfl, rfl, ?_, ?_, rfl⟩
          · constructor <;> simp_all [Pc.inCS, Pc.critical, Pc.hasPending]
          · simp [hpc, Pc.hasPending]
          · left; exact ⟨rfl, fun m hm => absurd hm (hno m)⟩

theorem step_checked {p st i t} (hg : GInv p st) (ht : TInv p st i t) (hpc : t.pc = .checked) :
    StepOut p st i t (tstepMain .repaired p st i t).1 (tstepMain .repaired p st i t).2 := by
  have hcs : t.pc.inCS = true := by simp [hpc, Pc.inCS]
  have hnp : t.pc.hasPending = false := by simp [hpc, Pc.hasPending]
  have hno := ht.noOk (by simp [hpc]) (by simp [hpc])
  have hclaim := ht.claim hcs
  have hrok := ht.resRok
  have hcrit := ht.crit (by simp [hpc, Pc.critical])
  have hact := ht.act (by simp [hpc])
  cases hk : t.kind <;> simp only [tstepMain, hk, hpc] <;>
  · split
    · exact stepOut_fail _ hg ht hcs hnp hno (by simp)
    · split
      · exact stepOut_fail _ hg ht hcs hnp hno (by simp)
      · refine ⟨hg, ?_, .inl rfl, .inl rfl, rfl, ?_, ?_, by simp [callOf, hk]⟩
        · constructor <;> simp_all [Pc.inCS, Pc.critical, Pc.hasPending]
        · simp [hpc, Pc.hasPending]
        · left; exact ⟨rfl, fun m hm => absurd hm (hno m)⟩

theorem step_decided {p st i t} (hg : GInv p st) (ht : TInv p st i t) (hpc : t.pc = .decided)
    (hp : ∀ m, st.pending = some m → t.pc.inCS = true → t.pc.hasPending = true) :
    StepOut p st i t (tstepMain .repaired p st i t).1 (tstepMain .repaired p st i t).2 := by
  have hcs : t.pc.inCS = true := by simp [hpc, Pc.inCS]
  have hnp : t.pc.hasPending = false := by simp [hpc, Pc.hasPending]
  have hno := ht.noOk (by simp [hpc]) (by simp [hpc])
  have hclaim := ht.claim hcs
  have hrok := ht.resRok
  have hcrit := ht.crit (by simp [hpc, Pc.critical])
  have hact := ht.act (by simp [hpc])
  have hact2 := ht.act2 (by simp [hpc])
  have hpn : st.pending = none := by
    cases h : st.pending with
    | none => rfl
    | some m => have := hp m h hcs; simp [hnp] at this
  cases hk : t.kind <;> simp only [tstepMain, hk, hpc] <;>
  · split
    · exact stepOut_fail _ hg ht hcs hnp hno (by simp)
    · refine ⟨ginv_create _ hg hpn rfl rfl, ?_, .inl rfl, .inl rfl, rfl, ?_, ?_, by simp [callOf, hk]⟩
      · constructor <;> simp_all [Pc.inCS, Pc.critical, Pc.hasPending, Mapping.tup]
      · right; right; exact ⟨_, rfl, rfl, by simp [Pc.hasPending]⟩
      · left; exact ⟨rfl, fun m hm => absurd hm (hno m)⟩

/-! ### ConnectionCodeRepository.Update -/

theorem updateRec_fields (st : Store) (t : Thread) :
    (updateRec st t).1.okMap = st.okMap ∧ (updateRec st t).1.revDone = st.revDone ∧
    (updateRec st t).1.pending = st.pending ∧ (updateRec st t).1.claim = st.claim ∧
    (updateRec st t).1.created = st.created ∧ (updateRec st t).1.maps = st.maps ∧ (updateRec st t).1.nextId = st.nextId := by
  unfold updateRec; (repeat' split) <;> simp

theorem updateRec_age (st : Store) (t : Thread) : (updateRec st t).1.claimAge = st.claimAge := by
  unfold updateRec; (repeat' split) <;> simp

theorem updateRec_ginv {p st} (t : Thread) (h : GInv p st) (hok : st.okMap = none) (hrev : st.revDone = false)
    (hc : st.created = true) (ht : t.loc.TargetClientID = p.tc ∧ t.loc.TargetAddress = p.ta) :
    GInv p (updateRec st t).1 := by
  unfold updateRec; (repeat' split) <;>
    first | exact h | exact ginv_absent h | exact ginv_write _ h hok hrev hc ht

theorem updateRec_ok (st : Store) (t : Thread) (h : (updateRec st t).2 = true) :
    (updateRec st t).1.present = false ∨ (updateRec st t).1.code = t.loc := by
  unfold updateRec at h ⊢; (repeat' split) <;> simp_all

theorem step_created {p st i t} (hg : GInv p st) (ht : TInv p st i t) (hpc : t.pc = .created) :
    StepOut p st i t (tstepMain .repaired p st i t).1 (tstepMain .repaired p st i t).2 := by
  have hcs : t.pc.inCS = true := by simp [hpc, Pc.inCS]
  have hno := ht.noOk (by simp [hpc]) (by simp [hpc])
  have hclaim := ht.claim hcs
  have hrok := ht.resRok
  have hcrit := ht.crit (by simp [hpc, Pc.critical])
  have hact := ht.act (by simp [hpc])
  have hact2 := ht.act2 (by simp [hpc])
  obtain ⟨m, hm, hpend, hown, hpre, htup, hmid⟩ := ht.pend (by simp [hpc, Pc.hasPending])
  have hf := updateRec_fields st t
  have hgu := updateRec_ginv t hg hcrit.1 hcrit.2.1 hcrit.2.2 hact.2
  cases hk : t.kind <;> simp only [tstepMain, hk, hpc, hm] <;>
  · split
    · rename_i hsucc
      have hrec := updateRec_ok st t hsucc
      have hl : m.ListenClientID = t.listener := by simp [Mapping.tup] at htup; exact htup.1
      refine ⟨ginv_ok m hgu (by simp [hf, hcrit]) (by simp [hf, hcrit]) (by simp [hf, hpend]) (by simp [hf, hcrit]) hpre ?_,
        ?_, .inr hcrit.1, .inl (by simp [hf]), by simp [hf], .inr (.inl rfl), .inr ⟨m, rfl, hown, by simp [fin]⟩, by simp [callOf, hk, fin]⟩
      · rcases hrec with h | h
        · exact .inl h
        · right; rw [h]; simp [hact2, hl, hmid]
      · constructor <;> simp_all [fin, Pc.inCS, Pc.critical, Pc.hasPending]
    · refine ⟨hgu, ?_, .inl (by simp [hf]), .inl (by simp [hf]), by simp [hf], .inl ⟨by simp [hf], by simp [Pc.hasPending]⟩,
        .inl ⟨by simp [hf], fun m' hm' => absurd hm' (hno m')⟩, by simp [callOf, hk]⟩
      constructor <;> simp_all [Pc.inCS, Pc.critical, Pc.hasPending]

theorem step_rollback {p st i t} (hg : GInv p st) (ht : TInv p st i t) (hpc : t.pc = .rollback) :
    StepOut p st i t (tstepMain .repaired p st i t).1 (tstepMain .repaired p st i t).2 := by
  have hcs : t.pc.inCS = true := by simp [hpc, Pc.inCS]
  have hno := ht.noOk (by simp [hpc]) (by simp [hpc])
  have hclaim := ht.claim hcs
  have hrok := ht.resRok
  have hcrit := ht.crit (by simp [hpc, Pc.critical])
  obtain ⟨m, hm, hpend, hown, hpre, htup, hmid⟩ := ht.pend (by simp [hpc, Pc.hasPending])
  cases hk : t.kind <;> simp only [tstepMain, hk, hpc, hm] <;>
  · refine ⟨ginv_rollback m hg hcrit.1 hpend, ?_, .inl rfl, .inl rfl, rfl, .inr (.inl rfl),
      .inl ⟨rfl, fun m' hm' => absurd hm' (hno m')⟩, by simp [callOf, hk]⟩
    constructor <;> simp_all [Pc.inCS, Pc.critical, Pc.hasPending]

theorem step_revUpd {p st i t} (hg : GInv p st) (ht : TInv p st i t) (hpc : t.pc = .revUpd) :
    StepOut p st i t (tstepMain .repaired p st i t).1 (tstepMain .repaired p st i t).2 := by
  have hcs : t.pc.inCS = true := by simp [hpc, Pc.inCS]
  have hno := ht.noOk (by simp [hpc]) (by simp [hpc])
  have hclaim := ht.claim hcs
  have hrok := ht.resRok
  have hcrit := ht.crit (by simp [hpc, Pc.critical])
  have hrev := ht.rev hpc
  have hf := updateRec_fields st t
  have hgu := updateRec_ginv t hg hcrit.1 hcrit.2.1 hcrit.2.2 hrev.2.2
  cases hk : t.kind <;> simp only [tstepMain, hk, hpc] <;>
  · split
    · rename_i hsucc
      have hrec := updateRec_ok st t hsucc
      refine ⟨ginv_rev hgu (by simp [hf, hcrit]) (by simp [hf, hcrit]) ?_, ?_, .inl (by simp [hf]), .inr rfl, by simp [hf],
        .inl ⟨by simp [hf], by simp [hpc, Pc.hasPending]⟩, .inl ⟨by simp [hf], fun m' hm' => absurd hm' (hno m')⟩, by simp [callOf, hk, fin]⟩
      · rcases hrec with h | h
        · exact .inl h
        · right; rw [h]; exact hrev.2.1
      · constructor <;> simp_all [fin, Pc.inCS, Pc.critical, Pc.hasPending]
    · refine ⟨hgu, ?_, .inl (by simp [hf]), .inl (by simp [hf]), by simp [hf], .inl ⟨by simp [hf], by simp [hpc, Pc.hasPending]⟩,
        .inl ⟨by simp [hf], fun m' hm' => absurd hm' (hno m')⟩, by simp [callOf, hk, fin]⟩
      constructor <;> simp_all [fin, Pc.inCS, Pc.critical, Pc.hasPending]

theorem step_releasing {p st i t} (hg : GInv p st) (ht : TInv p st i t) (hpc : t.pc = .releasing) :
    StepOut p st i t (tstepMain .repaired p st i t).1 (tstepMain .repaired p st i t).2 := by
  have h1 := ht.resOk
  have h2 := ht.resRok
  cases hk : t.kind <;> simp only [tstepMain, hk, hpc] <;>
  · split
    · refine ⟨hg, ?_, .inl rfl, .inl rfl, rfl, .inl ⟨rfl, by simp [hpc, Pc.hasPending]⟩, .inl ⟨rfl, fun _ h => h⟩, by simp [callOf, hk]⟩
      constructor <;> simp_all [Pc.inCS, Pc.critical, Pc.hasPending]
    · refine ⟨ginv_claim _ hg, ?_, .inl rfl, .inl rfl, rfl, .inl ⟨rfl, by simp [hpc, Pc.hasPending]⟩, .inl ⟨rfl, fun _ h => h⟩, by simp [callOf, hk]⟩
      constructor <;> simp_all [Pc.inCS, Pc.critical, Pc.hasPending]

theorem step_done {p st i t} (hg : GInv p st) (ht : TInv p st i t) (hpc : t.pc = .done) :
    StepOut p st i t (tstepMain .repaired p st i t).1 (tstepMain .repaired p st i t).2 := by
  cases hk : t.kind <;> simp only [tstepMain, hk, hpc] <;>
  exact ⟨hg, ht, .inl rfl, .inl rfl, rfl, .inl ⟨rfl, fun h => h⟩, .inl ⟨rfl, fun _ h => h⟩, rfl⟩

theorem tstep_out {p st i t} (hg : GInv p st) (ht : TInv p st i t)
    (hp : ∀ m, st.pending = some m → t.pc.inCS = true → t.pc.hasPending = true) :
    StepOut p st i t (tstepMain .repaired p st i t).1 (tstepMain .repaired p st i t).2 := by
  cases hpc : t.pc
  · exact step_start hg ht hpc
  · exact step_claimed hg ht hpc
  · exact step_checked hg ht hpc
  · exact step_decided hg ht hpc hp
  · exact step_created hg ht hpc
  · exact step_rollback hg ht hpc
  · exact step_revUpd hg ht hpc
  · exact step_releasing hg ht hpc
  · exact step_done hg ht hpc

/-! ### configurations -/

theorem Pc.inCS_of_critical {pc : Pc} (h : pc.critical = true) : pc.inCS = true := by cases pc <;> simp_all [Pc.critical, Pc.inCS]
theorem Pc.inCS_of_hasPending {pc : Pc} (h : pc.hasPending = true) : pc.inCS = true := by cases pc <;> simp_all [Pc.hasPending, Pc.inCS]

/-- What a thread outside its critical section knows survives any step of another thread. -/
theorem TInv.frame {p st st' j tj} (h : TInv p st j tj) (hcs : tj.pc.inCS = false)
    (h2 : st'.okMap = st.okMap ∨ st.okMap = none) (h3 : st'.revDone = st.revDone ∨ st'.revDone = true) :
    TInv p st' j tj := by
  have hr1 := h.resOk
  have hr2 := h.resRok
  constructor
  · intro hc; simp [hcs] at hc
  · intro hc; have := Pc.inCS_of_critical hc; simp [hcs] at this
  · intro hc; have := Pc.inCS_of_hasPending hc; simp [hcs] at this
  · intro hc; rcases hc with hc | hc | hc | hc <;> simp [hc, Pc.inCS] at hcs
  · intro hc; rcases hc with hc | hc <;> simp [hc, Pc.inCS] at hcs
  · intro hc; simp [hc, Pc.inCS] at hcs
  · intro hc; simp [hc, Pc.inCS] at hcs
  · intro m hm
    have := hr1 m hm
    rcases h2 with h2 | h2
    · rw [h2]; exact this
    · rw [h2] at this; simp at this
  · intro hm
    have := hr2 hm
    rcases h3 with h3 | h3
    · rw [h3]; exact this
    · exact ⟨h3, this.2⟩

/-- claims of other spellings are invisible to the invariants -/
theorem ginv_oclaims {p st} (l : List Nat) (h : GInv p st) : GInv p { st with oclaims := l } := by
  cases h; constructor <;> simp_all

theorem tinv_oclaims {p st i t} (l : List Nat) (h : TInv p st i t) : TInv p { st with oclaims := l } i t := by
  cases h; constructor <;> simp_all

theorem tstepO_out (st : Store) (t : Thread) (ho : OInv t) :
    (∃ l, (tstepO .repaired st t).1 = { st with oclaims := l }) ∧ OInv (tstepO .repaired st t).2 ∧
    callOf (tstepO .repaired st t).2 = callOf t := by
  have h1 := ho.noOk
  have h2 := ho.noRok
  have hsame : ∃ l, st = { st with oclaims := l } := ⟨st.oclaims, rfl⟩
  have hkeep : ∀ pc, OInv { t with pc := pc } := fun pc => ⟨h1, h2⟩
  have hset : ∀ pc (r : Res), (∀ m, r ≠ .ok m) → r ≠ .rok → OInv { t with pc := pc, res := some r } :=
    fun pc r a b => ⟨fun m hm => a m (by simpa using hm), fun hm => b (by simpa using hm)⟩
  have hget : OInv (fin .repaired t (if t.fault = .get then .storage else .notfound)) := by
    unfold fin; simp only [↓reduceIte]
    exact hset _ _ (by intro m; split <;> simp) (by split <;> simp)
  unfold tstepO
  split
  · split
    · exact ⟨hsame, hset _ _ (by simp) (by simp), rfl⟩
    · simp only [↓reduceIte]
      split
      · exact ⟨hsame, hset _ _ (by simp) (by simp), rfl⟩
      · split
        · exact ⟨hsame, hset _ _ (by simp) (by simp), rfl⟩
        · exact ⟨⟨_, rfl⟩, hkeep _, rfl⟩
  · exact ⟨hsame, hget, rfl⟩
  · split
    · exact ⟨hsame, hkeep _, rfl⟩
    · exact ⟨⟨_, rfl⟩, hkeep _, rfl⟩
  · exact ⟨hsame, hkeep _, rfl⟩

theorem isMain_of_call {a b : Thread} (h : callOf a = callOf b) : a.isMain = b.isMain := by
  have h1 := congrArg Call.spell h
  have h2 := congrArg Call.poll h
  simp only [callOf] at h1 h2
  simp [Thread.isMain, h1, h2]

/-- a call the claim does not serialise: a status poll, or a request with another spelling -/
def tstepOut (v : Variant) (st : Store) (t : Thread) : Store × Thread :=
  if t.poll then tstepP st t else tstepO v st t

theorem tstepP_out (st : Store) (t : Thread) (ho : OInv t) :
    (tstepP st t).1 = st ∧ OInv (tstepP st t).2 ∧ callOf (tstepP st t).2 = callOf t := by
  unfold tstepP
  split
  · refine ⟨rfl, ⟨fun m hm => ?_, fun hm => ?_⟩, rfl⟩
    · simp only [Option.some.injEq] at hm; split at hm <;> simp at hm
    · simp only [Option.some.injEq] at hm; split at hm <;> simp at hm
  · exact ⟨rfl, ⟨ho.noOk, ho.noRok⟩, rfl⟩

theorem tstepOut_out (st : Store) (t : Thread) (ho : OInv t) :
    (∃ l, (tstepOut .repaired st t).1 = { st with oclaims := l }) ∧ OInv (tstepOut .repaired st t).2 ∧
    callOf (tstepOut .repaired st t).2 = callOf t := by
  unfold tstepOut
  split
  · have := tstepP_out st t ho
    exact ⟨⟨st.oclaims, by rw [this.1]⟩, this.2.1, this.2.2⟩
  · exact tstepO_out st t ho

theorem inv_th {p c} (i : Nat) (h : Inv p c) : Inv p (step .repaired p c (.th i)) := by
  simp only [step]
  cases hti : c.ths[i]? with
  | none => exact h
  | some t =>
    simp only
    have hlt : i < c.ths.length := by
      rcases List.getElem?_eq_some_iff.mp hti with ⟨hl, _⟩; exact hl
    by_cases hs : t.isMain = true
    · have htm : tstep .repaired p c.st i t = tstepMain .repaired p c.st i t := by simp [tstep, hs]
      rw [htm]
      have hT := h.t i t hti hs
      have hp : ∀ m, c.st.pending = some m → t.pc.inCS = true → t.pc.hasPending = true := by
        intro m hm hcs
        obtain ⟨to, hto, hso, hpo⟩ := h.pendOwner m hm
        have h1 := (h.t _ to hto hso).claim (Pc.inCS_of_hasPending hpo)
        have h2 := hT.claim hcs
        rw [h1] at h2; simp at h2; subst h2
        rw [hti] at hto; simp at hto; subst hto; exact hpo
      have out := tstep_out h.g hT hp
      have hsp : (tstepMain .repaired p c.st i t).2.isMain = true := by
        rw [isMain_of_call out.call]; exact hs
      have hself : (c.ths.set i (tstepMain .repaired p c.st i t).2)[i]? = some (tstepMain .repaired p c.st i t).2 := by
        simp [hlt]
      refine ⟨out.ginv, ?_, ?_, ?_, ?_⟩
      · intro j tj hj hsj
        by_cases hij : i = j
        · subst hij; rw [hself] at hj; simp at hj; subst hj; exact out.tinv
        · rw [List.getElem?_set_ne hij] at hj
          have hTj := h.t j tj hj hsj
          cases hcs : tj.pc.inCS with
          | true =>
            have hcj := hTj.claim hcs
            have hci : t.pc.inCS = false := by
              cases hc : t.pc.inCS with
              | false => rfl
              | true => have := hT.claim hc; rw [hcj] at this; simp at this; exact absurd this.symm hij
            rw [tstep_store_eq p c.st i t hci (by rw [hcj]; simp)]; exact hTj
          | false => exact hTj.frame hcs out.okMono out.revMono
      · intro j tj hj hsj
        by_cases hij : i = j
        · subst hij; rw [hself] at hj; simp at hj; subst hj; exact absurd hsp hsj
        · rw [List.getElem?_set_ne hij] at hj; exact h.o j tj hj hsj
      · intro m hm
        rcases out.pend with ⟨h1, h2⟩ | h1 | ⟨m', h1, h2, h3⟩
        · rw [h1] at hm
          obtain ⟨to, hto, hso, hpo⟩ := h.pendOwner m hm
          by_cases hij : i = m.owner
          · subst hij; rw [hti] at hto; simp at hto; subst hto
            exact ⟨_, hself, hsp, h2 hpo⟩
          · exact ⟨to, by rw [List.getElem?_set_ne hij]; exact hto, hso, hpo⟩
        · rw [h1] at hm; simp at hm
        · rw [h1] at hm; simp at hm; subst hm; subst h2; exact ⟨_, hself, hsp, h3⟩
      · intro m hm
        rcases out.okO with ⟨h1, h2⟩ | ⟨m', h1, h2, h3⟩
        · rw [h1] at hm
          obtain ⟨to, hto, hpo⟩ := h.okOwner m hm
          by_cases hij : i = m.owner
          · subst hij; rw [hti] at hto; simp at hto; subst hto
            exact ⟨_, hself, h2 m hpo⟩
          · exact ⟨to, by rw [List.getElem?_set_ne hij]; exact hto, hpo⟩
        · rw [h1] at hm; simp at hm; subst hm; subst h2; exact ⟨_, hself, h3⟩
    · have htm : tstep .repaired p c.st i t = tstepOut .repaired c.st t := by simp [tstep, tstepOut, hs]
      rw [htm]
      obtain ⟨⟨l, hst⟩, ho', hcall⟩ := tstepOut_out c.st t (h.o i t hti hs)
      have hsp : ¬ (tstepOut .repaired c.st t).2.isMain = true := by
        rw [isMain_of_call hcall]; exact hs
      have hself : (c.ths.set i (tstepOut .repaired c.st t).2)[i]? = some (tstepOut .repaired c.st t).2 := by
        simp [hlt]
      rw [hst]
      refine ⟨ginv_oclaims l h.g, ?_, ?_, ?_, ?_⟩
      · intro j tj hj hsj
        by_cases hij : i = j
        · subst hij; rw [hself] at hj; simp at hj; subst hj; exact absurd hsj hsp
        · rw [List.getElem?_set_ne hij] at hj; exact tinv_oclaims l (h.t j tj hj hsj)
      · intro j tj hj hsj
        by_cases hij : i = j
        · subst hij; rw [hself] at hj; simp at hj; subst hj; exact ho'
        · rw [List.getElem?_set_ne hij] at hj; exact h.o j tj hj hsj
      · intro m hm
        obtain ⟨to, hto, hso, hpo⟩ := h.pendOwner m hm
        have hij : i ≠ m.owner := by
          intro hij; subst hij; rw [hti] at hto; simp at hto; subst hto; exact hs hso
        exact ⟨to, by rw [List.getElem?_set_ne hij]; exact hto, hso, hpo⟩
      · intro m hm
        obtain ⟨to, hto, hpo⟩ := h.okOwner m hm
        have hij : i ≠ m.owner := by
          intro hij; subst hij; rw [hti] at hto; simp at hto; subst hto
          exact (h.o _ _ hti hs).noOk m hpo
        exact ⟨to, by rw [List.getElem?_set_ne hij]; exact hto, hpo⟩

theorem inv_create {p c} (h : Inv p c) : Inv p (step .repaired p c .create) := by
  simp only [step]
  split
  · exact h
  · rename_i hc
    have hg := h.g
    refine ⟨?_, ?_, h.o, h.pendOwner, h.okOwner⟩
    · have ⟨h1, h2, h3, h4, h5, h6, h7, h8⟩ := hg
      refine ⟨h1, h2, h3, ?_, ?_, h6, ?_, ?_⟩
      · intro m hm; have := (h4 m hm).1; simp_all
      · intro hm; have := (h5 hm).1; simp_all
      · simp
      · simp
    · intro i t hi hs
      have ⟨a1, a2, a3, a4, a5, a6, a7, a8, a9⟩ := h.t i t hi hs
      refine ⟨a1, ?_, a3, a4, a5, ?_, a7, a8, a9⟩
      · intro hcr; have := a2 hcr; simp_all
      · intro hcr; have := a2 (by simp [hcr, Pc.critical]); simp_all

theorem inv_expire {p c} (h : Inv p c) : Inv p (step .repaired p c .expire) := by
  simp only [step]
  split
  · have hg := h.g
    refine ⟨?_, ?_, h.o, h.pendOwner, h.okOwner⟩
    · have ⟨h1, h2, h3, h4, h5, h6, h7, h8⟩ := hg
      refine ⟨h1, h2, h3, ?_, ?_, h6, ?_, h8⟩
      · intro m hm
        have := h4 m hm
        refine ⟨this.1, this.2.1, ?_⟩
        rcases this.2.2 with h | h
        · left; simp [h]
        · right; exact h
      · intro hm
        have := h5 hm
        refine ⟨this.1, ?_⟩
        rcases this.2 with h | h
        · left; simp [h]
        · right; exact h
      · intro hp; simp at hp; exact h7 hp.1
    · intro i t hi hs
      have ⟨a1, a2, a3, a4, a5, a6, a7, a8, a9⟩ := h.t i t hi hs
      exact ⟨a1, a2, a3, a4, a5, a6, a7, a8, a9⟩
  · exact h

/-- A stall that does not outlast the lease only ages the claim key. -/
theorem inv_stall {p c} (h : Inv p c) (hl : c.st.claimAge + 1 < p.lease) : Inv p (step .repaired p c .stall) := by
  simp only [step]
  split
  · exact h
  · have hn : ¬ p.lease ≤ c.st.claimAge + 1 := by omega
    simp only [hn, ↓reduceIte]
    refine ⟨?_, ?_, h.o, h.pendOwner, h.okOwner⟩
    · have := ginv_age c.st.claim (c.st.claimAge + 1) h.g
      simpa using this
    · intro i t hi hs; exact tinv_age _ (h.t i t hi hs)

theorem inv_step {p c} (e : Ev) (h : Inv p c) (hl : e = .stall → c.st.claimAge + 1 < p.lease) :
    Inv p (step .repaired p c e) := by
  cases e with
  | create => exact inv_create h
  | expire => exact inv_expire h
  | th i => exact inv_th i h
  | stall => exact inv_stall h (hl rfl)

/-- No step but a stall makes the claim key older. -/
theorem age_step {p : Params} (c : Config) (e : Ev) (he : e ≠ .stall) :
    (step .repaired p c e).st.claimAge ≤ c.st.claimAge := by
  cases e with
  | create => simp only [step]; split <;> simp
  | expire => simp only [step]; split <;> simp
  | stall => exact absurd rfl he
  | th i =>
    simp only [step]
    cases hti : c.ths[i]? with
    | none => simp
    | some t =>
      simp only
      have hu := updateRec_age c.st t
      unfold tstep
      split
      · unfold tstepMain
        (repeat' split) <;> first
          | exact Nat.le_refl _
          | (simp only []; omega)
          | (unfold claimStep; (repeat' split) <;> simp)
          | (unfold getStepA; (repeat' split) <;> simp)
          | (unfold getStepR; (repeat' split) <;> simp)
          | (simp only [hu]; omega)
      · split
        · unfold tstepP; split <;> simp
        · unfold tstepO; (repeat' split) <;> simp

theorem age_stall {p : Params} (c : Config) (hl : c.st.claimAge + 1 < p.lease) :
    (step .repaired p c .stall).st.claimAge ≤ c.st.claimAge + 1 := by
  simp only [step]
  split
  · simp
  · have hn : ¬ p.lease ≤ c.st.claimAge + 1 := by omega
    simp [hn]

/-- One event of a history whose stalls do not outlast the lease: the stall (if it is one) does not reach the
lease, and the rest of the history still does not outlast it. -/
theorem lease_next {p : Params} {c : Config} {e : Ev} {es : List Ev} (hl : leaseOk p c (e :: es) = true) :
    (e = .stall → c.st.claimAge + 1 < p.lease) ∧ leaseOk p (step .repaired p c e) es = true := by
  simp only [leaseOk, decide_eq_true_eq] at hl
  by_cases he : e = .stall
  · subst he
    simp only [List.count_cons_self] at hl
    have h1 : c.st.claimAge + 1 < p.lease := by omega
    have := age_stall (p := p) c h1
    exact ⟨fun _ => h1, by simp only [leaseOk, decide_eq_true_eq]; omega⟩
  · have hc : (e :: es).count .stall = es.count .stall := by
      rw [List.count_cons]; simp [he]
    have := age_step (p := p) c e he
    exact ⟨fun h' => absurd h' he, by simp only [leaseOk, decide_eq_true_eq]; omega⟩

/-- The invariant along a history whose stalls do not outlast the lease. -/
theorem inv_run {p c} (evs : List Ev) (h : Inv p c) (hl : leaseOk p c evs = true) : Inv p (run .repaired p c evs) := by
  induction evs generalizing c with
  | nil => exact h
  | cons e es ih => exact ih (inv_step e h (lease_next hl).1) (lease_next hl).2

/-! ### from the invariant to the observation predicate -/

theorem oresOf_ok {st : Store} {t : Thread} {tp : Tup} {b : Bool} (h : oresOf st t = .ok tp b) :
    ∃ m, t.res = some (.ok m) ∧ tp = m.tup ∧ b = st.maps.any (fun x => x.id == m.id) ∧ t.pc = .done := by
  unfold oresOf at h
  split at h
  · simp at h
  · rename_i hpc
    simp at hpc
    cases hr : t.res with
    | none => simp [hr] at h
    | some r => cases r <;> simp [hr] at h; exact ⟨_, rfl, h.1.symm, h.2.symm, hpc⟩

theorem oresOf_rok {st : Store} {t : Thread} (h : oresOf st t = .rok) : t.res = some .rok ∧ t.pc = .done := by
  unfold oresOf at h
  split at h
  · simp at h
  · rename_i hpc
    simp at hpc
    cases hr : t.res with
    | none => simp [hr] at h
    | some r => cases r <;> simp [hr] at h; exact ⟨rfl, hpc⟩

theorem oresOf_done {st : Store} {t : Thread} (h : oresOf st t ≠ .running) : t.pc = .done := by
  unfold oresOf at h
  split at h
  · simp at h
  · rename_i hpc; simpa using hpc

theorem oresOf_of_ok {st : Store} {t : Thread} {m : Mapping} (h : t.res = some (.ok m)) (hpc : t.pc = .done) :
    oresOf st t = .ok m.tup (st.maps.any (fun x => x.id == m.id)) := by
  simp [oresOf, h, hpc]

theorem countP_le_one {α} (p : α → Bool) (l : List α)
    (h : ∀ (i j : Nat) (a b : α), l[i]? = some a → l[j]? = some b → p a = true → p b = true → i = j) : l.countP p ≤ 1 := by
  induction l with
  | nil => simp
  | cons x xs ih =>
    rw [List.countP_cons]
    have ih' := ih (fun i j a b hi hj ha hb => by
      have := h (i + 1) (j + 1) a b (by simpa using hi) (by simpa using hj) ha hb
      omega)
    cases hx : p x with
    | false => simpa using ih'
    | true =>
      have : xs.countP p = 0 := by
        rw [List.countP_eq_zero]
        intro b hb hpb
        obtain ⟨j, hj⟩ := List.mem_iff_getElem?.mp hb
        have := h 0 (j + 1) x b (by simp) (by simpa using hj) hx (by simpa using hpb)
        omega
      simp [this]

theorem find_id {l : List Mapping} {m : Mapping} (hn : l.Pairwise (fun a b => a.id ≠ b.id)) (hm : m ∈ l) :
    l.find? (fun x => x.id == m.id) = some m := by
  induction l with
  | nil => simp at hm
  | cons x xs ih =>
    rw [List.pairwise_cons] at hn
    rcases List.mem_cons.mp hm with h | h
    · subst h; simp
    · have hne : x.id ≠ m.id := hn.1 m h
      have hb : (x.id == m.id) = false := by simpa using hne
      rw [List.find?_cons, hb]
      exact ih hn.2 h

theorem holdsCore_of_inv {p : Params} {c : Config} (h : Inv p c) :
    holdsCore p (c.ths.map callOf) (obs c) = true := by
  have hres : ∀ r, r ∈ (obs c).results → ∃ (i : Nat) (t : Thread), c.ths[i]? = some t ∧ oresOf c.st t = r := by
    intro r hr
    simp only [obs, List.mem_map] at hr
    obtain ⟨t, ht, rfl⟩ := hr
    obtain ⟨i, hi⟩ := List.mem_iff_getElem?.mp ht
    exact ⟨i, t, hi, rfl⟩
  -- every ok result is the ghost mapping
  have hok : ∀ (i : Nat) (t : Thread) tp b, c.ths[i]? = some t → oresOf c.st t = .ok tp b →
      ∃ m, c.st.okMap = some m ∧ m.owner = i ∧ tp = m.tup ∧ t.kind = .activate ∧
        m.tup = (t.listener, t.laddr, p.tc, p.ta) ∧ b = c.st.maps.any (fun x => x.id == m.id) := by
    intro i t tp b hi ho
    obtain ⟨m, hm, h1, h2, _⟩ := oresOf_ok ho
    have hs : t.isMain = true := Classical.byContradiction (fun hs => (h.o i t hi hs).noOk m hm)
    have := (h.t i t hi hs).resOk m hm
    exact ⟨m, this.1, this.2.1, h1, this.2.2.1, this.2.2.2.1, h2⟩
  have hrk : ∀ (i : Nat) (t : Thread), c.ths[i]? = some t → oresOf c.st t = .rok → c.st.revDone = true ∧ t.kind = .revoke := by
    intro i t hi ho
    have hr := (oresOf_rok ho).1
    have hs : t.isMain = true := Classical.byContradiction (fun hs => (h.o i t hi hs).noRok hr)
    exact (h.t i t hi hs).resRok hr
  have hmem : ∀ m, c.st.okMap = some m → m ∈ c.st.maps := by
    intro m hm
    have : m ∈ c.st.maps.filter (fun m => !m.pre) := by rw [h.g.exact, hm]; simp
    exact (List.mem_filter.mp this).1
  have hin : ∀ m, c.st.okMap = some m → c.st.maps.any (fun x => x.id == m.id) = true := by
    intro m hm; rw [List.any_eq_true]; exact ⟨m, hmem m hm, by simp⟩
  unfold holdsCore
  simp only [Bool.and_eq_true]
  refine ⟨⟨⟨⟨?_, ?_⟩, ?_⟩, ?_⟩, ?_⟩
  · simp [obs]
  · rw [decide_eq_true_eq]
    apply countP_le_one
    intro i j a b hi hj ha hb
    simp only [obs, List.getElem?_map, Option.map_eq_some_iff] at hi hj
    obtain ⟨ti, hti, rfl⟩ := hi
    obtain ⟨tj, htj, rfl⟩ := hj
    cases hoi : oresOf c.st ti <;> simp [hoi, ORes.isOk] at ha
    cases hoj : oresOf c.st tj <;> simp [hoj, ORes.isOk] at hb
    obtain ⟨m1, h1, h2, _⟩ := hok i ti _ _ hti hoi
    obtain ⟨m2, h3, h4, _⟩ := hok j tj _ _ htj hoj
    rw [h1] at h3; simp at h3; subst h3; omega
  · rw [Bool.or_eq_true]
    by_cases hc : (obs c).results.contains .rok = true
    · right
      rw [List.all_eq_true]
      intro r hr
      obtain ⟨i, t, hi, rfl⟩ := hres r hr
      have hrok : .rok ∈ (obs c).results := by simpa using hc
      obtain ⟨j, tj, hj, hoj⟩ := hres _ hrok
      have hrd := (hrk j tj hj hoj).1
      cases ho : oresOf c.st t <;> simp [ORes.isOk]
      obtain ⟨m, hm, _⟩ := hok i t _ _ hi ho
      have := h.g.excl (by simp [hm]); simp [hrd] at this
    · left; simpa using hc
  · simp only [obs, List.zip_map', List.all_map, List.all_eq_true]
    intro t ht
    obtain ⟨i, hi⟩ := List.mem_iff_getElem?.mp ht
    simp only [Function.comp]
    cases ho : oresOf c.st t with
    | ok tp b =>
      obtain ⟨m, hm, _, h2, h3, h4, h5⟩ := hok i t _ _ hi ho
      simp [callOf, h3, h2, h4, h5, hin m hm]
    | rok =>
      have := (hrk i t hi ho).2
      simp [callOf, this]
    | err _ => simp
    | running => simp
  · split
    · rfl
    · rename_i hrun
      have hdone : ∀ (i : Nat) (t : Thread), c.ths[i]? = some t → t.pc = .done := by
        intro i t hi
        apply oresOf_done
        intro hr
        apply hrun
        simp only [obs, List.contains_iff_mem, List.mem_map]
        exact ⟨t, List.mem_of_getElem? hi, hr⟩
      have hpn : c.st.pending = none := by
        cases hp : c.st.pending with
        | none => rfl
        | some m =>
          obtain ⟨t, ht, _, hpp⟩ := h.pendOwner m hp
          have := hdone _ t ht; simp [this, Pc.hasPending] at hpp
      have hmaps : (obs c).maps = c.st.okMap.toList.map Mapping.tup := by
        simp [obs, h.g.exact, hpn]
      simp only [Bool.and_eq_true]
      refine ⟨⟨⟨?_, ?_⟩, ?_⟩, ?_⟩
      · rw [decide_eq_true_eq, hmaps]; cases c.st.okMap <;> simp
      · rw [hmaps, List.all_eq_true]
        intro tp htp
        cases hm : c.st.okMap with
        | none => simp [hm] at htp
        | some m =>
          simp [hm] at htp; subst htp
          obtain ⟨t, ht, hr⟩ := h.okOwner m hm
          rw [List.contains_iff_mem]
          simp only [obs, List.mem_map]
          refine ⟨t, List.mem_of_getElem? ht, ?_⟩
          rw [oresOf_of_ok hr (hdone _ t ht), hin m hm]
      · rw [List.all_eq_true]
        intro r hr
        obtain ⟨i, t, hi, rfl⟩ := hres r hr
        cases ho : oresOf c.st t <;> simp only []
        obtain ⟨m, hm, _, h2, _⟩ := hok i t _ _ hi ho
        rw [hmaps, hm, h2]; simp
      · cases hrec : (obs c).orec with
        | none => rfl
        | some r =>
          simp only
          rw [List.all_eq_true]
          intro x hx
          obtain ⟨i, t, hi, rfl⟩ := hres x hx
          have hpres : c.st.present = true ∧ r = ORec.mk c.st.code.IsActivated c.st.code.IsRevoked c.st.code.ActivatedBy
              (c.st.code.MappingID.map (fun id => (c.st.maps.find? (fun x => x.id == id)).map Mapping.tup)) := by
            simp only [obs, orecOf] at hrec
            split at hrec
            · rename_i hp; simp at hrec; exact ⟨hp, hrec.symm⟩
            · simp at hrec
          cases ho : oresOf c.st t <;> simp only []
          · obtain ⟨m, hm, _, h2, _, h4, _⟩ := hok i t _ _ hi ho
            have := (h.g.okRec m hm).2.2
            rcases this with hh | ⟨ha, hb, hc⟩
            · simp [hpres.1] at hh
            · have hf := find_id h.g.nodup (hmem m hm)
              have hl : m.ListenClientID = m.tup.1 := rfl
              rw [hpres.2]; simp [ha, hb, hc, hf, h2, hl]
          · have hrd := (hrk i t hi ho).1
            rcases (h.g.revRec hrd).2 with hh | hh
            · simp [hpres.1] at hh
            · rw [hpres.2]; simp [hh]

/-! ### initial configuration -/

/-- Calls that have not started. -/
def freshThreads (ths : List Thread) : Bool := ths.all (fun t => t.pc == .start && t.res == none)

theorem inv_init {p : Params} (preC preN : Nat) (ths : List Thread) (hf : freshThreads ths = true) :
    Inv p (init preC preN ths) := by
  refine ⟨?_, ?_, ?_, ?_, ?_⟩
  · refine ⟨?_, ?_, ?_, ?_, ?_, ?_, ?_, ?_⟩
    · simp [init, initStore]
    · intro x hx
      simp only [init, initStore, List.mem_map, List.mem_range] at hx
      obtain ⟨k, hk, rfl⟩ := hx
      exact hk
    · simp only [init, initStore, List.pairwise_map]
      exact List.Pairwise.imp (fun h => h) List.nodup_range
    · intro m hm; simp [init, initStore] at hm
    · intro hm; simp [init, initStore] at hm
    · intro hm; simp [init, initStore] at hm
    · intro hm; simp [init, initStore] at hm
    · intro hm; simp [init, initStore] at hm
  · intro i t hi _
    have ht := List.mem_of_getElem? hi
    simp only [freshThreads, List.all_eq_true, Bool.and_eq_true, beq_iff_eq] at hf
    have := hf t ht
    constructor <;> simp_all [init, initStore, Pc.inCS, Pc.critical, Pc.hasPending]
  · intro i t hi _
    have ht := List.mem_of_getElem? hi
    simp only [freshThreads, List.all_eq_true, Bool.and_eq_true, beq_iff_eq] at hf
    have := hf t ht
    exact ⟨fun m hm => by simp [this.2] at hm, fun hm => by simp [this.2] at hm⟩
  · intro m hm; simp [init, initStore] at hm
  · intro m hm; simp [init, initStore] at hm

theorem holdsCore_run {p : Params} (preC preN : Nat) (ths : List Thread) (evs : List Ev) (hf : freshThreads ths = true)
    (hl : leaseOk p (init preC preN ths) evs = true) :
    holdsCore p ((run .repaired p (init preC preN ths) evs).ths.map callOf)
      (obs (run .repaired p (init preC preN ths) evs)) = true :=
  holdsCore_of_inv (inv_run evs (inv_init preC preN ths hf) hl)

/-- The calls (kind, client, address) of a configuration never change. -/
theorem calls_step {p : Params} (v : Variant) (c : Config) (e : Ev) :
    (step v p c e).ths.map callOf = c.ths.map callOf := by
  cases e with
  | create => simp only [step]; split <;> rfl
  | expire => simp only [step]; split <;> rfl
  | stall => simp only [step]; (repeat' split) <;> rfl
  | th i =>
    simp only [step]
    cases hti : c.ths[i]? with
    | none => rfl
    | some t =>
      simp only
      have hfin : ∀ (t : Thread) r, callOf (fin v t r) = callOf t := fun _ _ => rfl
      have : callOf (tstep v p c.st i t).2 = callOf t := by
        unfold tstep
        split
        rotate_left
        · split
          · unfold tstepP; split <;> rfl
          · unfold tstepO
            (repeat' split) <;> rfl
        unfold tstepMain
        (repeat' split) <;> first
          | rfl
          | (unfold claimStep; (repeat' split) <;> rfl)
          | (unfold getStepA; (repeat' split) <;> rfl)
          | (unfold getStepR; (repeat' split) <;> rfl)
      rw [List.map_set, this]
      apply List.ext_getElem?
      intro j
      by_cases hij : i = j
      · subst hij
        rw [List.getElem?_set_self (by
          rcases List.getElem?_eq_some_iff.mp hti with ⟨hl, _⟩; simpa using hl)]
        simp [hti]
      · rw [List.getElem?_set_ne hij]

theorem calls_run {p : Params} (v : Variant) (c : Config) (evs : List Ev) :
    (run v p c evs).ths.map callOf = c.ths.map callOf := by
  induction evs generalizing c with
  | nil => rfl
  | cons e es ih => exact (ih (step v p c e)).trans (calls_step v c e)

end Tunnox.C06
