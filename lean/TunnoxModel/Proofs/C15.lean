import TunnoxModel.Spec.C15
/-! Helper lemmas for C15: the small store, the replay, one preservation lemma per step. -/
namespace Tunnox.C15

/-! ### store -/

theorem lookup_erase_self (s : Store) (k : Key) : lookup (erase s k) k = none := by
  induction s with
  | nil => rfl
  | cons p r ih =>
    unfold erase
    by_cases h : p.1 = k
    · simp only [h, if_true]; exact ih
    · simp only [h, if_false]; unfold lookup; simp only [h, if_false]; exact ih

theorem lookup_erase_ne (s : Store) (k k' : Key) (h : k' ≠ k) : lookup (erase s k) k' = lookup s k' := by
  induction s with
  | nil => rfl
  | cons p r ih =>
    unfold erase
    by_cases hp : p.1 = k
    · have hne : ¬ p.1 = k' := fun e => h (e.symm.trans hp)
      simp only [hp, if_true]
      rw [ih]
      conv => rhs; unfold lookup
      simp only [hne, if_false]
    · simp only [hp, if_false]
      unfold lookup
      by_cases hk : p.1 = k'
      · simp only [hk, if_true]
      · simp only [hk, if_false]; exact ih

theorem live_erase_self (s : Store) (now : Nat) (k : Key) : live (erase s k) now k = false := by
  simp [live, lookup_erase_self]

theorem live_erase_ne (s : Store) (now : Nat) (k k' : Key) (h : k' ≠ k) :
    live (erase s k) now k' = live s now k' := by
  simp [live, lookup_erase_ne s k k' h]

/-- Erasing never makes a key live. -/
theorem live_erase_false (s : Store) (now : Nat) (k k' : Key) (h : live s now k' = false) :
    live (erase s k) now k' = false := by
  by_cases e : k' = k
  · subst e; exact live_erase_self s now k'
  · rw [live_erase_ne s now k k' e]; exact h

theorem lookup_put_self (s : Store) (k : Key) (e : Nat) : lookup (put s k e) k = some e := by
  simp [put, lookup]

theorem lookup_put_ne (s : Store) (k k' : Key) (e : Nat) (h : k' ≠ k) :
    lookup (put s k e) k' = lookup s k' := by
  have : k ≠ k' := fun x => h x.symm
  simp [put, lookup, this, lookup_erase_ne s k k' h]

theorem live_put_ne (s : Store) (now : Nat) (k k' : Key) (e : Nat) (h : k' ≠ k) :
    live (put s k e) now k' = live s now k' := by
  simp [live, lookup_put_ne s k k' e h]

theorem lookup_filter_keys (f : Key → Bool) (s : Store) (k : Key) :
    lookup (s.filter (fun p => f p.1)) k = if f k then lookup s k else none := by
  induction s with
  | nil => simp [lookup]
  | cons p r ih =>
    by_cases hp : f p.1
    · simp only [List.filter, hp]
      unfold lookup
      by_cases e : p.1 = k
      · simp only [e, if_true]; rw [← e, hp]; simp
      · simp only [e, if_false]; exact ih
    · have hp' : f p.1 = false := by simpa using hp
      simp only [List.filter, hp']
      rw [ih]
      conv => rhs; unfold lookup
      by_cases e : p.1 = k
      · rw [← e, hp']; simp
      · simp only [e, if_false]

/-- A sweep keeps the entry of every live key and drops the rest. -/
theorem lookup_sweep (s : Store) (now : Nat) (k : Key) :
    lookup (sweep s now) k = if live s now k then lookup s k else none :=
  lookup_filter_keys (live s now) s k

theorem lookup_sweep_live (s : Store) (now : Nat) (k : Key) (h : live s now k = true) :
    lookup (sweep s now) k = lookup s k := by rw [lookup_sweep, h]; rfl

/-- The expiry GC never makes an absent key live. -/
theorem live_sweep_false (s : Store) (now : Nat) (k : Key) (h : live s now k = false) :
    live (sweep s now) now k = false := by
  unfold live
  rw [lookup_sweep, h]
  rfl

theorem alive_mono (now dt e : Nat) (h : alive (now + dt) e = true) : alive now e = true := by
  unfold alive at *
  cases he : (e == 0) with
  | true => simp
  | false =>
    simp only [he, Bool.false_or, decide_eq_true_eq] at h ⊢
    omega

/-- Time only ever kills markers. -/
theorem live_tick_false (s : Store) (now dt : Nat) (k : Key) (h : live s now k = false) :
    live s (now + dt) k = false := by
  unfold live at *
  cases hl : lookup s k with
  | none => rfl
  | some e =>
    simp only [hl] at h ⊢
    cases ha : alive (now + dt) e with
    | false => rfl
    | true => rw [alive_mono now dt e ha] at h; cases h

theorem mem_of_lookup (s : Store) (k : Key) (e : Nat) (h : lookup s k = some e) : k ∈ s.map (·.1) := by
  induction s with
  | nil => simp [lookup] at h
  | cons p r ih =>
    unfold lookup at h
    by_cases hp : p.1 = k
    · simp [hp]
    · simp only [hp, if_false] at h
      simp [ih h]

/-- The live keys of a store are an exact report of it. -/
theorem viewOk_liveKeys (s : Store) (now : Nat) : viewOk s now (liveKeys s now) = true := by
  unfold viewOk liveKeys
  rw [Bool.and_eq_true]
  constructor
  · rw [List.all_eq_true]
    intro k hk
    exact (List.mem_filter.mp hk).2
  · rw [List.all_eq_true]
    intro p hp
    cases hl : live s now p.1 with
    | false => rfl
    | true =>
      simp only [Bool.not_true, Bool.false_or]
      rw [List.contains_iff_mem]
      exact List.mem_filter.mpr ⟨List.mem_map.mpr ⟨p, hp, rfl⟩, hl⟩

/-! ### replay -/

theorem replay_snoc (ttl : Nat → Nat) (pre : Store) (tr : List Ev) (e : Ev) :
    replay ttl pre (tr ++ [e]) = specStep ttl (replay ttl pre tr) e := by
  simp [replay, List.foldl_append]

theorem replay_nil_append (ttl : Nat → Nat) (pre : Store) (tr : List Ev) :
    replay ttl pre (tr ++ []) = replay ttl pre tr := by simp

/-! ### threads -/

@[simp] theorem upd_self (ts : Nat → Thread) (i : Nat) (t : Thread) : upd ts i t i = t := by simp [upd]
theorem upd_ne (ts : Nat → Thread) (i j : Nat) (t : Thread) (h : j ≠ i) : upd ts i t j = ts j := by
  simp [upd, h]

/-- The spec replay of the trace reproduces the model's store and clock and has accepted everything. -/
def Inv (P : Params) (pre : Store) (c : Cfg) : Prop :=
  replay P.ttl pre c.trace = ⟨c.store, c.now, true⟩

theorem inv_failCfg (P : Params) (pre : Store) (c : Cfg) (tid kind a : Nat) (t : Thread)
    (h : Inv P pre c) : Inv P pre (failCfg P c tid kind a t) := by
  unfold Inv failCfg failEvs at *
  by_cases hm : a + 1 < P.maxAtt kind
  · simp only [hm, if_true, List.append_nil]; exact h
  · simp only [hm, if_false]; rw [replay_snoc, h]; rfl

theorem inv_okCfg (P : Params) (pre : Store) (c : Cfg) (tid kind id : Nat) (t : Thread) (locks : List Nat)
    (h : Inv P pre c) (hfree : live c.store c.now (kind, id) = false) :
    Inv P pre (okCfg P c tid kind id t locks) := by
  unfold Inv okCfg at *
  simp only
  rw [replay_snoc, h]
  simp [specStep, hfree]

/-! ### atomic path: the invariant is preserved by every step -/

theorem inv_stepThread_cas (P : Params) (pre : Store) (c : Cfg) (tid : Nat)
    (hcas : P.cas = true) (hrn : P.renewShared = true) (h : Inv P pre c) :
    Inv P pre (stepThread P c tid) := by
  unfold stepThread
  split
  · exact h
  · -- rel
    unfold Inv at *; simp only; rw [replay_snoc, h]; rfl
  · -- sweep
    unfold Inv at *; simp only; rw [replay_snoc, h]; rfl
  · -- relOwn
    split
    · unfold Inv at *; simp only; rw [replay_snoc, h]; rfl
    · unfold Inv at *; simp only; rw [replay_snoc, h]; rfl
  · -- renewOwn
    split
    · unfold Inv at *; simp only; rw [replay_snoc, h]; rfl
    · split
      · unfold Inv at *; simp only [hrn, if_true]; rw [replay_snoc, h]; rfl
      · unfold Inv at *; simp only; rw [replay_snoc, h]; rfl
  · -- gen
    split
    · simp only [hcas, if_true]
      split
      · exact inv_failCfg P pre c tid _ _ _ h
      · rename_i hl
        exact inv_okCfg P pre c tid _ _ _ _ h (by simpa using hl)
    · simp only [hcas, if_true]; exact h

/-- A failed storage call changes neither the store nor the verdict of the replay (on either path). -/
theorem inv_stepFault (P : Params) (pre : Store) (c : Cfg) (tid : Nat) (h : Inv P pre c) :
    Inv P pre (stepFault P c tid) := by
  unfold stepFault
  split
  · exact h
  · unfold Inv at *; simp only; rw [replay_snoc, h]; rfl
  · unfold Inv at *; simp only; rw [replay_snoc, h]; rfl
  · split
    · unfold Inv at *; simp only; rw [replay_snoc, h]; rfl
    · unfold Inv at *; simp only; rw [replay_snoc, h]; rfl
  · split
    · unfold Inv at *; simp only; rw [replay_snoc, h]; rfl
    · unfold Inv at *; simp only; rw [replay_snoc, h]; rfl
  · split
    · split
      · exact inv_failCfg P pre c tid _ _ _ h
      · split
        · exact h
        · exact inv_failCfg P pre c tid _ _ _ h
    · split
      · exact h
      · rename_i kind _ _ _ _ a _ _
        have := inv_failCfg P pre c tid kind a (c.threads tid) h
        unfold Inv at *
        exact this

theorem inv_step_cas (P : Params) (pre : Store) (c : Cfg) (s : Sch)
    (hcas : P.cas = true) (hrn : P.renewShared = true) (h : Inv P pre c) : Inv P pre (step P c s) := by
  cases s with
  | step tid => exact inv_stepThread_cas P pre c tid hcas hrn h
  | fault tid => exact inv_stepFault P pre c tid h
  | tick dt => unfold Inv step at *; simp only; rw [replay_snoc, h]; rfl

theorem inv_run_cas (P : Params) (pre : Store) (σ : List Sch) (c : Cfg)
    (hcas : P.cas = true) (hrn : P.renewShared = true) (h : Inv P pre c) : Inv P pre (run P c σ) := by
  induction σ generalizing c with
  | nil => exact h
  | cons s σ ih => exact ih (step P c s) (inv_step_cas P pre c s hcas hrn h)

/-! ### release discipline (`heldReplay`): independent of the path and of faults -/

/-- Whatever a thread believes it owns is a hand-out to it that it has not released, and no
release-own so far was a second release. -/
def InvH (c : Cfg) : Prop :=
  (heldReplay c.trace).2 = true ∧
  ∀ tid k, (c.threads tid).own = some k →
    (tid, k) ∈ (heldReplay c.trace).1 ∧ (c.threads tid).hb = true

theorem heldReplay_snoc (tr : List Ev) (e : Ev) : heldReplay (tr ++ [e]) = heldStep (heldReplay tr) e := by
  simp [heldReplay, List.foldl_append]

def plainEv : Ev → Bool
  | .ok _ _ _ => false
  | .relo _ _ _ => false
  | .dead _ _ _ => false
  | .rnw _ _ _ => false
  | _ => true

theorem heldReplay_plain (tr evs : List Ev) (h : evs.all plainEv = true) :
    heldReplay (tr ++ evs) = heldReplay tr := by
  induction evs generalizing tr with
  | nil => simp
  | cons e r ih =>
    simp only [List.all_cons, Bool.and_eq_true] at h
    have : tr ++ e :: r = (tr ++ [e]) ++ r := by simp
    rw [this, ih _ h.2, heldReplay_snoc]
    cases e <;> simp [plainEv] at h <;> rfl

theorem own_upd (ts : Nat → Thread) (tid : Nat) (t' : Thread)
    (ho : ∀ k, t'.own = some k → (ts tid).own = some k ∧ t'.hb = (ts tid).hb) :
    ∀ j k, (upd ts tid t' j).own = some k →
      (ts j).own = some k ∧ (upd ts tid t' j).hb = (ts j).hb := by
  intro j k hj
  by_cases e : j = tid
  · subst e; rw [upd_self] at hj ⊢; exact ho k hj
  · rw [upd_ne _ _ _ _ e] at hj ⊢; exact ⟨hj, rfl⟩

/-- A step that reports neither a hand-out nor a release-own and gives no thread a new belief. -/
theorem invH_plain (c c' : Cfg) (evs : List Ev) (ht : c'.trace = c.trace ++ evs)
    (hp : evs.all plainEv = true)
    (hown : ∀ j k, (c'.threads j).own = some k →
      (c.threads j).own = some k ∧ (c'.threads j).hb = (c.threads j).hb)
    (h : InvH c) : InvH c' := by
  unfold InvH at *
  rw [ht, heldReplay_plain _ _ hp]
  exact ⟨h.1, fun j k hj => ⟨(h.2 j k (hown j k hj).1).1, by rw [(hown j k hj).2]; exact (h.2 j k (hown j k hj).1).2⟩⟩

theorem invH_ok (P : Params) (c : Cfg) (tid kind id : Nat) (t : Thread) (store' : Store) (locks' : List Nat)
    (hhb : P.hbSurvives = true) (h : InvH c) :
    InvH { c with store := store', locks := locks',
                  threads := upd c.threads tid { finishOp t with own := some (kind, id), hb := P.hbSurvives },
                  trace := c.trace ++ [.ok tid kind id] } := by
  unfold InvH at *
  simp only
  rw [heldReplay_snoc]
  refine ⟨h.1, ?_⟩
  intro j k hj
  by_cases e : j = tid
  · subst e
    rw [upd_self] at hj ⊢
    simp only [Option.some.injEq] at hj
    subst hj
    exact ⟨by simp [heldStep], hhb⟩
  · rw [upd_ne _ _ _ _ e] at hj ⊢
    simp only [heldStep]
    exact ⟨List.mem_cons_of_mem _ (h.2 j k hj).1, (h.2 j k hj).2⟩

theorem invH_relo (c : Cfg) (tid : Nat) (k : Key) (t' : Thread) (store' : Store)
    (hk : (c.threads tid).own = some k) (hn : t'.own = none) (h : InvH c) :
    InvH { c with store := store', threads := upd c.threads tid t',
                  trace := c.trace ++ [.relo tid k.1 k.2] } := by
  unfold InvH at *
  simp only
  rw [heldReplay_snoc]
  have hm := (h.2 tid k hk).1
  refine ⟨by simp [heldStep, h.1, hm], ?_⟩
  intro j k' hj
  by_cases e : j = tid
  · subst e; rw [upd_self, hn] at hj; cases hj
  · rw [upd_ne _ _ _ _ e] at hj ⊢
    simp only [heldStep]
    have hne : (j, k') ≠ (tid, (k.1, k.2)) := fun x => e (by injection x)
    exact ⟨(List.mem_erase_of_ne hne).mpr (h.2 j k' hj).1, (h.2 j k' hj).2⟩

theorem invH_rnw (c : Cfg) (tid : Nat) (k : Key) (t' : Thread) (store' : Store)
    (hk : (c.threads tid).own = some k) (ho : t'.own = (c.threads tid).own) (hb : t'.hb = (c.threads tid).hb)
    (h : InvH c) :
    InvH { c with store := store', threads := upd c.threads tid t',
                  trace := c.trace ++ [.rnw tid k.1 k.2] } := by
  unfold InvH at *
  simp only
  rw [heldReplay_snoc]
  have hm := (h.2 tid k hk).1
  refine ⟨by simp [heldStep, h.1, hm], ?_⟩
  intro j k' hj
  by_cases e : j = tid
  · subst e; rw [upd_self] at hj ⊢; rw [ho] at hj; rw [hb]; simpa [heldStep] using h.2 j k' hj
  · rw [upd_ne _ _ _ _ e] at hj ⊢; simpa [heldStep] using h.2 j k' hj

theorem failThread_own (P : Params) (kind a : Nat) (t : Thread) : (failThread P kind a t).own = t.own := by
  unfold failThread; split <;> rfl

theorem failThread_hb (P : Params) (kind a : Nat) (t : Thread) : (failThread P kind a t).hb = t.hb := by
  unfold failThread; split <;> rfl

theorem failEvs_plain (P : Params) (tid kind a : Nat) : (failEvs P tid kind a).all plainEv = true := by
  unfold failEvs; split <;> rfl

theorem invH_failCfg (P : Params) (c : Cfg) (tid kind a : Nat) (h : InvH c) :
    InvH (failCfg P c tid kind a (c.threads tid)) :=
  invH_plain c _ (failEvs P tid kind a) rfl (failEvs_plain P tid kind a)
    (own_upd _ _ _ (fun k hk => ⟨by rw [failThread_own] at hk; exact hk, failThread_hb P kind a _⟩)) h

theorem invH_stepThread (P : Params) (c : Cfg) (tid : Nat) (hhb : P.hbSurvives = true) (h : InvH c) :
    InvH (stepThread P c tid) := by
  unfold stepThread
  split
  · exact h
  · exact invH_plain c _ [_] rfl rfl (own_upd _ _ _ (fun k hk => ⟨hk, rfl⟩)) h
  · exact invH_plain c _ [_] rfl rfl (own_upd _ _ _ (fun k hk => ⟨hk, rfl⟩)) h
  · split
    · exact invH_plain c _ [_] rfl rfl (own_upd _ _ _ (fun k hk => ⟨hk, rfl⟩)) h
    · rename_i k hk
      exact invH_relo c tid k _ _ hk rfl h
  · split
    · exact invH_plain c _ [_] rfl rfl (own_upd _ _ _ (fun k hk => ⟨hk, rfl⟩)) h
    · rename_i k hk
      split
      · exact invH_rnw c tid k _ _ hk rfl rfl h
      · rename_i hdead
        exact absurd (h.2 tid k hk).2 hdead
  · split
    · split
      · split
        · exact invH_failCfg P c tid _ _ h
        · exact invH_ok P c tid _ _ _ _ _ hhb h
      · split
        · exact h
        · split
          · exact invH_failCfg P c tid _ _ h
          · exact invH_plain c _ [] (by simp) rfl (own_upd _ _ _ (fun k hk => ⟨hk, rfl⟩)) h
    · split
      · exact h
      · exact invH_ok P c tid _ _ _ _ _ hhb h

theorem invH_stepFault (P : Params) (c : Cfg) (tid : Nat) (h : InvH c) : InvH (stepFault P c tid) := by
  unfold stepFault
  split
  · exact h
  · exact invH_plain c _ [_] rfl rfl (own_upd _ _ _ (fun k hk => ⟨hk, rfl⟩)) h
  · exact invH_plain c _ [_] rfl rfl (own_upd _ _ _ (fun k hk => ⟨hk, rfl⟩)) h
  · split
    · exact invH_plain c _ [_] rfl rfl (own_upd _ _ _ (fun k hk => ⟨hk, rfl⟩)) h
    · exact invH_plain c _ [_] rfl rfl (own_upd _ _ _ (fun k hk => by cases hk)) h
  · split
    · exact invH_plain c _ [_] rfl rfl (own_upd _ _ _ (fun k hk => ⟨hk, rfl⟩)) h
    · exact invH_plain c _ [_] rfl rfl (own_upd _ _ _ (fun k hk => ⟨hk, rfl⟩)) h
  · split
    · split
      · exact invH_failCfg P c tid _ _ h
      · split
        · exact h
        · exact invH_failCfg P c tid _ _ h
    · split
      · exact h
      · rename_i kind _ _ _ _ a _ _
        have := invH_failCfg P c tid kind a h
        unfold InvH at *
        exact this

theorem held_good_mono (tr : List Ev) (s : Held × Bool) (h : (tr.foldl heldStep s).2 = true) :
    s.2 = true := by
  induction tr generalizing s with
  | nil => exact h
  | cons e r ih =>
    have := ih (heldStep s e) h
    cases e <;> simp [heldStep] at this <;> first | exact this | exact this.1

/-- While the discipline holds: (entries of `x` in the held list) + (release-owns of `x`) =
(entries at the start) + (hand-outs of `x`). -/
theorem held_count (x : Nat × Key) (tr : List Ev) (s : Held × Bool)
    (hg : (tr.foldl heldStep s).2 = true) :
    s.2 = true ∧
    (tr.foldl heldStep s).1.count x + tr.countP (· == .relo x.1 x.2.1 x.2.2) =
      s.1.count x + tr.countP (· == .ok x.1 x.2.1 x.2.2) := by
  induction tr generalizing s with
  | nil => exact ⟨hg, by simp⟩
  | cons e r ih =>
    simp only [List.foldl_cons] at hg ⊢
    obtain ⟨hs, hc⟩ := ih (heldStep s e) hg
    generalize List.foldl heldStep (heldStep s e) r = F at hc hg ⊢
    obtain ⟨t, k, i⟩ := x
    cases e with
    | ok t' k' i' =>
      simp only [heldStep] at hs hc
      refine ⟨hs, ?_⟩
      simp only [List.countP_cons, List.count_cons] at hc ⊢
      by_cases hx : t' = t ∧ k' = k ∧ i' = i
      · obtain ⟨rfl, rfl, rfl⟩ := hx; simp at hc ⊢; omega
      · have h1 : ((t', k', i') == (t, k, i)) = false := by
          simp only [beq_eq_false_iff_ne, ne_eq, Prod.mk.injEq]; exact hx
        have h2 : (Ev.ok t' k' i' == Ev.ok t k i) = false := by
          simp only [beq_eq_false_iff_ne, ne_eq, Ev.ok.injEq]; exact hx
        simp [h1, h2] at hc ⊢; omega
    | relo t' k' i' =>
      simp only [heldStep, Bool.and_eq_true, decide_eq_true_eq] at hs hc
      refine ⟨hs.1, ?_⟩
      simp only [List.countP_cons] at hc ⊢
      by_cases hx : t' = t ∧ k' = k ∧ i' = i
      · obtain ⟨rfl, rfl, rfl⟩ := hx
        have hpos := List.count_pos_iff.mpr hs.2
        rw [List.count_erase_self] at hc
        simp at hc ⊢; omega
      · have h1 : (t, k, i) ≠ (t', k', i') := by
          simp only [ne_eq, Prod.mk.injEq]; exact fun ⟨a, b, c⟩ => hx ⟨a.symm, b.symm, c.symm⟩
        have h2 : (Ev.relo t' k' i' == Ev.relo t k i) = false := by
          simp only [beq_eq_false_iff_ne, ne_eq, Ev.relo.injEq]; exact hx
        rw [List.count_erase_of_ne h1] at hc
        simp [h2] at hc ⊢; omega
    | exh _ _ => exact ⟨hs, by simpa [heldStep] using hc⟩
    | rel _ _ _ => exact ⟨hs, by simpa [heldStep] using hc⟩
    | rnw _ _ _ => simp only [heldStep, Bool.and_eq_true] at hs hc; exact ⟨hs.1, by simpa using hc⟩
    | nop _ => exact ⟨hs, by simpa [heldStep] using hc⟩
    | err _ => exact ⟨hs, by simpa [heldStep] using hc⟩
    | swp _ => exact ⟨hs, by simpa [heldStep] using hc⟩
    | dead _ _ _ => simp [heldStep] at hs
    | tick _ => exact ⟨hs, by simpa [heldStep] using hc⟩

theorem invH_run (P : Params) (σ : List Sch) (c : Cfg) (hhb : P.hbSurvives = true) (h : InvH c) :
    InvH (run P c σ) := by
  induction σ generalizing c with
  | nil => exact h
  | cons s σ ih =>
    apply ih
    cases s with
    | step tid => exact invH_stepThread P c tid hhb h
    | fault tid => exact invH_stepFault P c tid h
    | tick dt => exact invH_plain c _ [_] rfl rfl (fun _ _ hk => ⟨hk, rfl⟩) h

theorem invH_init (pre : Store) (progs : List (Nat × List Op)) : InvH (init pre progs) := by
  refine ⟨rfl, ?_⟩
  intro tid k hk
  simp only [init, mkThreads] at hk
  split at hk <;> simp [mkThread] at hk

theorem holds_of_inv (P : Params) (pre : Store) (c : Cfg) (h : Inv P pre c) (hh : InvH c) :
    holds P.ttl pre c.trace (liveKeys c.store c.now) = true := by
  unfold holds
  rw [h]
  simp [viewOk_liveKeys, hh.1]


/-- Every step either leaves the store alone or reports an event that is not an exhaustion. -/
theorem step_store_or_event (P : Params) (c : Cfg) (tid : Nat) :
    (stepThread P c tid).store = c.store ∨
    ∃ e, (stepThread P c tid).trace = c.trace ++ [e] ∧ ∀ t k, e ≠ .exh t k := by
  unfold stepThread
  repeat' split
  all_goals first
    | (left; rfl)
    | (right; exact ⟨_, rfl, fun _ _ => by simp⟩)
    | (left; simp [failCfg])

/-! ### reading `holds` -/

/-- In a history accepted by the predicate an `ok` for a live key is impossible. -/
theorem good_mono (ttl : Nat → Nat) (s : SpecSt) (tr : List Ev)
    (h : (tr.foldl (specStep ttl) s).good = true) : s.good = true := by
  induction tr generalizing s with
  | nil => exact h
  | cons e tr ih =>
    have := ih (specStep ttl s e) h
    cases e <;> simp [specStep] at this <;> first | exact this | exact this.1

theorem still_live (ttl : Nat → Nat) (k : Key) (t0 : Nat) (mid : List Ev) (s : SpecSt)
    (hq : mid.all (quiet k) = true) (ht0 : t0 ≤ s.now)
    (hk : ∃ e, lookup s.store k = some e ∧ (e = 0 ∨ t0 + ttl k.1 ≤ e) ∧ (ttl k.1 = 0 → e = 0))
    (hel : s.now + elapsed mid < t0 + ttl k.1 ∨ ttl k.1 = 0)
    (hg : (mid.foldl (specStep ttl) s).good = true) :
    live (mid.foldl (specStep ttl) s).store (mid.foldl (specStep ttl) s).now k = true := by
  induction mid generalizing s with
  | nil =>
    obtain ⟨e, hl, he, hz⟩ := hk
    simp only [List.foldl_nil, live, hl, alive]
    rcases he with he | he
    · simp [he]
    · rcases hel with hel | hel
      · simp only [elapsed, Nat.add_zero] at hel
        have : s.now < e := by omega
        simp [this]
      · simp [hz hel]
  | cons ev mid ih =>
    simp only [List.all_cons, Bool.and_eq_true] at hq
    simp only [List.foldl_cons] at hg ⊢
    obtain ⟨e, hl, he, hz⟩ := hk
    cases ev with
    | ok t kind id =>
      apply ih _ hq.2 (by simpa [specStep] using ht0) _ (by simpa [specStep, elapsed] using hel) hg
      by_cases hkk : k = (kind, id)
      · subst hkk
        refine ⟨expiry s.now (ttl kind), by simp [specStep, lookup_put_self], ?_, ?_⟩
        · unfold expiry; by_cases hz' : ttl kind = 0 <;> simp [hz'] ; omega
        · intro hz'; simp [expiry, hz']
      · exact ⟨e, by simp [specStep, lookup_put_ne _ _ _ _ hkk, hl], he, hz⟩
    | exh t kind => exact ih _ hq.2 ht0 ⟨e, hl, he, hz⟩ (by simpa [specStep, elapsed] using hel) hg
    | nop t => exact ih _ hq.2 ht0 ⟨e, hl, he, hz⟩ (by simpa [specStep, elapsed] using hel) hg
    | err t => exact ih _ hq.2 ht0 ⟨e, hl, he, hz⟩ (by simpa [specStep, elapsed] using hel) hg
    | dead t _ _ => exact ih _ hq.2 ht0 ⟨e, hl, he, hz⟩ (by simpa [specStep, elapsed] using hel) hg
    | swp t =>
      have hlive : live s.store s.now k = true := by
        simp only [live, hl, alive]
        rcases he with he | he
        · simp [he]
        · rcases hel with hel | hel
          · simp only [elapsed] at hel
            have : s.now < e := by omega
            simp [this]
          · simp [hz hel]
      exact ih _ hq.2 (by simpa [specStep] using ht0)
        ⟨e, by simp [specStep, lookup_sweep_live _ _ _ hlive, hl], he, hz⟩
        (by simpa [specStep, elapsed] using hel) hg
    | rel t kind id =>
      have hne : k ≠ (kind, id) := by
        have := hq.1; simp [quiet] at this; exact fun x => this x.symm
      exact ih _ hq.2 (by simpa [specStep] using ht0)
        ⟨e, by simp [specStep, lookup_erase_ne _ _ _ hne, hl], he, hz⟩ (by simpa [specStep, elapsed] using hel) hg
    | relo t kind id =>
      have hne : k ≠ (kind, id) := by
        have := hq.1; simp [quiet] at this; exact fun x => this x.symm
      exact ih _ hq.2 (by simpa [specStep] using ht0)
        ⟨e, by simp [specStep, lookup_erase_ne _ _ _ hne, hl], he, hz⟩ (by simpa [specStep, elapsed] using hel) hg
    | rnw t kind id =>
      apply ih _ hq.2 (by simpa [specStep] using ht0) _ (by simpa [specStep, elapsed] using hel) hg
      by_cases hkk : k = (kind, id)
      · subst hkk
        refine ⟨expiry s.now (ttl kind), by simp [specStep, lookup_put_self], ?_, ?_⟩
        · unfold expiry; by_cases hz' : ttl kind = 0 <;> simp [hz'] ; omega
        · intro hz'; simp [expiry, hz']
      · exact ⟨e, by simp [specStep, lookup_put_ne _ _ _ _ hkk, hl], he, hz⟩
    | tick dt =>
      apply ih _ hq.2 (by simp [specStep]; omega) ⟨e, by simpa [specStep] using hl, he, hz⟩ _ hg
      rcases hel with hel | hel
      · left; simp only [specStep, elapsed] at hel ⊢; omega
      · right; exact hel


/-- A marker whose lease is kept up (`leaseOk`) and that nobody releases stays live. -/
theorem lease_live (ttl : Nat → Nat) (k : Key) (mid : List Ev) (s : SpecSt) (b : Nat)
    (hq : mid.all (quiet k) = true) (hl : leaseOk k (ttl k.1) b mid = true) (hb : b ≤ ttl k.1) (hpos : 0 < b)
    (hk : ∃ e, lookup s.store k = some e ∧ (e = 0 ∨ s.now + b ≤ e)) :
    live (mid.foldl (specStep ttl) s).store (mid.foldl (specStep ttl) s).now k = true := by
  induction mid generalizing s b with
  | nil =>
    obtain ⟨e, hl', he⟩ := hk
    simp only [List.foldl_nil, live, hl', alive]
    rcases he with he | he
    · simp [he]
    · have : s.now < e := by omega
      simp [this]
  | cons ev mid ih =>
    simp only [List.all_cons, Bool.and_eq_true] at hq
    simp only [List.foldl_cons]
    obtain ⟨e, hl', he⟩ := hk
    have hput : ∀ kind id, k = (kind, id) →
        ∃ e', lookup (put s.store (kind, id) (expiry s.now (ttl kind))) k = some e' ∧
          (e' = 0 ∨ s.now + b ≤ e') := by
      intro kind id hkk
      subst hkk
      refine ⟨expiry s.now (ttl kind), lookup_put_self _ _ _, ?_⟩
      unfold expiry
      by_cases hz : ttl kind = 0
      · simp [hz]
      · simp only [hz, if_false]
        right; simp only at hb; omega
    cases ev with
    | ok t kind id =>
      simp only [leaseOk] at hl
      apply ih _ b hq.2 hl hb hpos
      by_cases hkk : k = (kind, id)
      · exact hput kind id hkk
      · exact ⟨e, by simp [specStep, lookup_put_ne _ _ _ _ hkk, hl'], he⟩
    | rnw t kind id =>
      simp only [leaseOk] at hl
      by_cases hkk : k = (kind, id)
      · have hkk' : (kind, id) = k := hkk.symm
        simp only [hkk', if_true] at hl
        apply ih _ (ttl k.1) hq.2 hl (Nat.le_refl _) (by omega)
        subst hkk
        refine ⟨expiry s.now (ttl kind), by simp [specStep, lookup_put_self], ?_⟩
        unfold expiry
        by_cases hz : ttl kind = 0
        · simp [hz]
        · simp only [hz, if_false]; right; simp [specStep]
      · have hkk' : ¬ (kind, id) = k := fun x => hkk x.symm
        simp only [hkk', if_false] at hl
        exact ih _ b hq.2 hl hb hpos ⟨e, by simp [specStep, lookup_put_ne _ _ _ _ hkk, hl'], he⟩
    | rel t kind id =>
      simp only [leaseOk] at hl
      have hne : k ≠ (kind, id) := by
        have := hq.1; simp [quiet] at this; exact fun x => this x.symm
      exact ih _ b hq.2 hl hb hpos ⟨e, by simp [specStep, lookup_erase_ne _ _ _ hne, hl'], he⟩
    | relo t kind id =>
      simp only [leaseOk] at hl
      have hne : k ≠ (kind, id) := by
        have := hq.1; simp [quiet] at this; exact fun x => this x.symm
      exact ih _ b hq.2 hl hb hpos ⟨e, by simp [specStep, lookup_erase_ne _ _ _ hne, hl'], he⟩
    | exh t kind => simp only [leaseOk] at hl; exact ih _ b hq.2 hl hb hpos ⟨e, hl', he⟩
    | nop t => simp only [leaseOk] at hl; exact ih _ b hq.2 hl hb hpos ⟨e, hl', he⟩
    | err t => simp only [leaseOk] at hl; exact ih _ b hq.2 hl hb hpos ⟨e, hl', he⟩
    | dead t _ _ => simp only [leaseOk] at hl; exact ih _ b hq.2 hl hb hpos ⟨e, hl', he⟩
    | swp t =>
      simp only [leaseOk] at hl
      have hlive : live s.store s.now k = true := by
        simp only [live, hl', alive]
        rcases he with he | he
        · simp [he]
        · have : s.now < e := by omega
          simp [this]
      exact ih _ b hq.2 hl hb hpos ⟨e, by simp [specStep, lookup_sweep_live _ _ _ hlive, hl'], he⟩
    | tick dt =>
      simp only [leaseOk, Bool.and_eq_true, decide_eq_true_eq] at hl
      apply ih _ (b - dt) hq.2 hl.2 (by omega) (by omega)
      refine ⟨e, by simpa [specStep] using hl', ?_⟩
      rcases he with he | he
      · left; exact he
      · right; simp only [specStep]; omega

/-! ### fallback path -/

/-- Invariant of the fallback path when every thread that has work belongs to generator instance `I`. -/
structure InvF (P : Params) (pre : Store) (I : Nat) (c : Cfg) : Prop where
  inv : Inv P pre c
  inst : ∀ i, (c.threads i).ops ≠ [] → (c.threads i).inst = I
  noRenew : ∀ i, Op.renewOwn ∉ (c.threads i).ops
  locked : ∀ i a, (c.threads i).pc = .locked a →
    I ∈ c.locks ∧ ∃ kind cands rest, (c.threads i).ops = .gen kind cands :: rest ∧
      live c.store c.now (kind, cands a) = false
  one : ∀ i j a b, (c.threads i).pc = .locked a → (c.threads j).pc = .locked b → i = j

theorem mem_tail {α} {a : α} {l : List α} (h : a ∈ l.tail) : a ∈ l := by
  cases l with
  | nil => simp at h
  | cons x r => exact List.mem_cons_of_mem x h

theorem tail_ne_nil {α} {l : List α} (h : l.tail ≠ []) : l ≠ [] := by
  cases l with
  | nil => simp at h
  | cons x r => simp

/-- A step after which the stepping thread is outside its critical section, the mutex table is
unchanged and no absent key became live. -/
theorem invF_plain (P : Params) (pre : Store) (I : Nat) (c : Cfg) (tid : Nat)
    (t' : Thread) (store' : Store) (evs : List Ev) (h : InvF P pre I c)
    (hinv : Inv P pre { c with store := store', threads := upd c.threads tid t', trace := c.trace ++ evs })
    (hinst : t'.ops ≠ [] → t'.inst = I)
    (hnr : Op.renewOwn ∉ t'.ops)
    (hpc : ∀ a, t'.pc ≠ .locked a)
    (hst : ∀ k, live c.store c.now k = false → live store' c.now k = false) :
    InvF P pre I { c with store := store', threads := upd c.threads tid t', trace := c.trace ++ evs } := by
  refine ⟨hinv, ?_, ?_, ?_, ?_⟩
  · intro i; by_cases e : i = tid
    · subst e; simpa using hinst
    · simp only [upd_ne _ _ _ _ e]; exact h.inst i
  · intro i; by_cases e : i = tid
    · subst e; simpa using hnr
    · simp only [upd_ne _ _ _ _ e]; exact h.noRenew i
  · intro i a hp
    by_cases e : i = tid
    · subst e; simp only [upd_self] at hp; exact absurd hp (hpc a)
    · simp only [upd_ne _ _ _ _ e] at hp ⊢
      obtain ⟨hI, k, cs, r, ho, hl⟩ := h.locked i a hp
      exact ⟨hI, k, cs, r, ho, hst _ hl⟩
  · intro i j a b hi hj
    by_cases ei : i = tid
    · subst ei; simp only [upd_self] at hi; exact absurd hi (hpc a)
    · by_cases ej : j = tid
      · subst ej; simp only [upd_self] at hj; exact absurd hj (hpc b)
      · simp only [upd_ne _ _ _ _ ei] at hi; simp only [upd_ne _ _ _ _ ej] at hj
        exact h.one i j a b hi hj

theorem finishOp_inst (t : Thread) (I : Nat) (h : t.ops ≠ [] → t.inst = I) :
    (finishOp t).ops ≠ [] → (finishOp t).inst = I := fun hne => h (tail_ne_nil hne)

theorem finishOp_noRenew (t : Thread) (h : Op.renewOwn ∉ t.ops) : Op.renewOwn ∉ (finishOp t).ops :=
  fun m => h (mem_tail m)

theorem failThread_ok (P : Params) (kind a : Nat) (t : Thread) (I : Nat)
    (hi : t.ops ≠ [] → t.inst = I) (hn : Op.renewOwn ∉ t.ops) :
    ((failThread P kind a t).ops ≠ [] → (failThread P kind a t).inst = I) ∧
    Op.renewOwn ∉ (failThread P kind a t).ops ∧ ∀ b, (failThread P kind a t).pc ≠ .locked b := by
  unfold failThread
  split
  · exact ⟨hi, hn, fun b => by simp⟩
  · exact ⟨finishOp_inst t I hi, finishOp_noRenew t hn, fun b => by simp [finishOp]⟩

theorem invF_stepThread (P : Params) (pre : Store) (I : Nat) (c : Cfg) (tid : Nat)
    (hcas : P.cas = false) (h : InvF P pre I c) : InvF P pre I (stepThread P c tid) := by
  unfold stepThread
  split
  · exact h
  · -- rel
    apply invF_plain P pre I c tid _ _ _ h
    · have := h.inv; unfold Inv at *; simp only; rw [replay_snoc, this]; rfl
    · exact finishOp_inst _ I (h.inst tid)
    · exact finishOp_noRenew _ (h.noRenew tid)
    · intro a; simp [finishOp]
    · intro k hk; exact live_erase_false _ _ _ _ hk
  · -- sweep
    apply invF_plain P pre I c tid _ _ _ h
    · have := h.inv; unfold Inv at *; simp only; rw [replay_snoc, this]; rfl
    · exact finishOp_inst _ I (h.inst tid)
    · exact finishOp_noRenew _ (h.noRenew tid)
    · intro a; simp [finishOp]
    · intro k hk; exact live_sweep_false _ _ _ hk
  · -- relOwn
    split
    · apply invF_plain P pre I c tid _ c.store _ h
      · have := h.inv; unfold Inv at *; simp only; rw [replay_snoc, this]; rfl
      · exact finishOp_inst _ I (h.inst tid)
      · exact finishOp_noRenew _ (h.noRenew tid)
      · intro a; simp [finishOp]
      · intro k hk; exact hk
    · apply invF_plain P pre I c tid _ _ _ h
      · have := h.inv; unfold Inv at *; simp only; rw [replay_snoc, this]; rfl
      · exact finishOp_inst _ I (h.inst tid)
      · exact finishOp_noRenew _ (h.noRenew tid)
      · intro a; simp [finishOp]
      · intro k hk; exact live_erase_false _ _ _ _ hk
  · -- renewOwn: excluded
    rename_i rest hops
    exact absurd (by rw [hops]; exact List.mem_cons_self) (h.noRenew tid)
  · -- gen
    rename_i kind cands rest hops
    split
    · rename_i a hpc
      simp only [hcas, Bool.false_eq_true, if_false]
      split
      · exact h
      · split
        · -- Exists said taken: unlock, next attempt or exhausted
          have ft := failThread_ok P kind a (c.threads tid) I (h.inst tid) (h.noRenew tid)
          apply invF_plain P pre I c tid _ c.store _ h
          · exact inv_failCfg P pre c tid _ _ _ h.inv
          · exact ft.1
          · exact ft.2.1
          · exact ft.2.2
          · intro k hk; exact hk
        · -- Exists said absent: the thread now holds the mutex
          rename_i hnl hlive
          have hne : (c.threads tid).ops ≠ [] := by rw [hops]; simp
          have hInl : I ∉ c.locks := by rw [← h.inst tid hne]; exact hnl
          have nolock : ∀ j b, (c.threads j).pc ≠ .locked b := fun j b hp => hInl (h.locked j b hp).1
          refine ⟨?_, ?_, ?_, ?_, ?_⟩
          · have := h.inv; unfold Inv at *; simpa using this
          · intro i; by_cases e : i = tid
            · subst e; simpa using h.inst i
            · simp only [upd_ne _ _ _ _ e]; exact h.inst i
          · intro i; by_cases e : i = tid
            · subst e; simp only [upd_self]; exact h.noRenew i
            · simp only [upd_ne _ _ _ _ e]; exact h.noRenew i
          · intro i a' hpc'
            by_cases e : i = tid
            · subst e
              simp only [upd_self, PC.locked.injEq] at hpc'
              subst hpc'
              refine ⟨by rw [h.inst i hne]; exact List.mem_cons_self, kind, cands, rest, by simpa using hops, by simpa using hlive⟩
            · simp only [upd_ne _ _ _ _ e] at hpc'; exact absurd hpc' (nolock i a')
          · intro i j a' b hi hj
            by_cases ei : i = tid
            · by_cases ej : j = tid
              · rw [ei, ej]
              · simp only [upd_ne _ _ _ _ ej] at hj; exact absurd hj (nolock j b)
            · simp only [upd_ne _ _ _ _ ei] at hi; exact absurd hi (nolock i a')
    · -- Set; Unlock
      rename_i a hpc
      simp only [hcas, Bool.false_eq_true, if_false]
      obtain ⟨_, k, cs, r, ho, hl⟩ := h.locked tid a hpc
      rw [hops] at ho
      injection ho with h1 _
      injection h1 with hk hc
      subst hk; subst hc
      refine ⟨inv_okCfg P pre c tid _ _ _ _ h.inv hl, ?_, ?_, ?_, ?_⟩
      · intro i; by_cases e : i = tid
        · subst e; simp only [okCfg, upd_self]; exact finishOp_inst _ I (h.inst i)
        · simp only [okCfg, upd_ne _ _ _ _ e]; exact h.inst i
      · intro i; by_cases e : i = tid
        · subst e; simp only [okCfg, upd_self]; exact finishOp_noRenew _ (h.noRenew i)
        · simp only [okCfg, upd_ne _ _ _ _ e]; exact h.noRenew i
      · intro i a' hpc'
        by_cases e : i = tid
        · subst e; simp [okCfg, finishOp] at hpc'
        · simp only [okCfg, upd_ne _ _ _ _ e] at hpc'
          exact absurd (h.one i tid a' a hpc' hpc) e
      · intro i j a' b hi hj
        by_cases ei : i = tid
        · subst ei; simp [okCfg, finishOp] at hi
        · simp only [okCfg, upd_ne _ _ _ _ ei] at hi
          exact absurd (h.one i tid a' a hi hpc) ei

theorem invF_stepFault (P : Params) (pre : Store) (I : Nat) (c : Cfg) (tid : Nat)
    (hcas : P.cas = false) (h : InvF P pre I c) : InvF P pre I (stepFault P c tid) := by
  unfold stepFault
  split
  · exact h
  · apply invF_plain P pre I c tid _ c.store _ h
    · have := h.inv; unfold Inv at *; simp only; rw [replay_snoc, this]; rfl
    · exact finishOp_inst _ I (h.inst tid)
    · exact finishOp_noRenew _ (h.noRenew tid)
    · intro a; simp [finishOp]
    · intro k hk; exact hk
  · apply invF_plain P pre I c tid _ c.store _ h
    · have := h.inv; unfold Inv at *; simp only; rw [replay_snoc, this]; rfl
    · exact finishOp_inst _ I (h.inst tid)
    · exact finishOp_noRenew _ (h.noRenew tid)
    · intro a; simp [finishOp]
    · intro k hk; exact hk
  · split
    · apply invF_plain P pre I c tid _ c.store _ h
      · have := h.inv; unfold Inv at *; simp only; rw [replay_snoc, this]; rfl
      · exact finishOp_inst _ I (h.inst tid)
      · exact finishOp_noRenew _ (h.noRenew tid)
      · intro a; simp [finishOp]
      · intro k hk; exact hk
    · apply invF_plain P pre I c tid _ c.store _ h
      · have := h.inv; unfold Inv at *; simp only; rw [replay_snoc, this]; rfl
      · exact finishOp_inst _ I (h.inst tid)
      · exact finishOp_noRenew _ (h.noRenew tid)
      · intro a; simp [finishOp]
      · intro k hk; exact hk
  · rename_i rest hops
    exact absurd (by rw [hops]; exact List.mem_cons_self) (h.noRenew tid)
  · rename_i kind cands rest hops
    have ft := fun a => failThread_ok P kind a (c.threads tid) I (h.inst tid) (h.noRenew tid)
    split
    · rename_i a hpc
      simp only [hcas, Bool.false_eq_true, if_false]
      split
      · exact h
      · apply invF_plain P pre I c tid _ c.store _ h
        · exact inv_failCfg P pre c tid _ _ _ h.inv
        · exact (ft a).1
        · exact (ft a).2.1
        · exact (ft a).2.2
        · intro k hk; exact hk
    · -- Set failed: the candidate is dropped and the mutex released
      rename_i a hpc
      simp only [hcas, Bool.false_eq_true, if_false]
      refine ⟨by have := inv_failCfg P pre c tid kind a (c.threads tid) h.inv; unfold Inv at *; exact this, ?_, ?_, ?_, ?_⟩
      · intro i; by_cases e : i = tid
        · subst e; simp only [failCfg, upd_self]; exact (ft a).1
        · simp only [failCfg, upd_ne _ _ _ _ e]; exact h.inst i
      · intro i; by_cases e : i = tid
        · subst e; simp only [failCfg, upd_self]; exact (ft a).2.1
        · simp only [failCfg, upd_ne _ _ _ _ e]; exact h.noRenew i
      · intro i a' hpc'
        by_cases e : i = tid
        · subst e; simp only [failCfg, upd_self] at hpc'; exact absurd hpc' ((ft a).2.2 a')
        · simp only [failCfg, upd_ne _ _ _ _ e] at hpc'
          exact absurd (h.one i tid a' a hpc' hpc) e
      · intro i j a' b hi hj
        by_cases ei : i = tid
        · subst ei; simp only [failCfg, upd_self] at hi; exact absurd hi ((ft a).2.2 a')
        · simp only [failCfg, upd_ne _ _ _ _ ei] at hi
          exact absurd (h.one i tid a' a hi hpc) ei

theorem invF_step (P : Params) (pre : Store) (I : Nat) (c : Cfg) (s : Sch)
    (hcas : P.cas = false) (h : InvF P pre I c) : InvF P pre I (step P c s) := by
  cases s with
  | step tid => exact invF_stepThread P pre I c tid hcas h
  | fault tid => exact invF_stepFault P pre I c tid hcas h
  | tick dt =>
    refine ⟨?_, h.inst, h.noRenew, ?_, h.one⟩
    · have := h.inv; unfold Inv step at *; simp only; rw [replay_snoc, this]; rfl
    · intro i a hpc
      obtain ⟨hI, k, cs, r, ho, hl⟩ := h.locked i a hpc
      exact ⟨hI, k, cs, r, ho, live_tick_false _ _ _ _ hl⟩

theorem invF_run (P : Params) (pre : Store) (I : Nat) (σ : List Sch) (c : Cfg)
    (hcas : P.cas = false) (h : InvF P pre I c) : InvF P pre I (run P c σ) := by
  induction σ generalizing c with
  | nil => exact h
  | cons s σ ih => exact ih (step P c s) (invF_step P pre I c s hcas h)


end Tunnox.C15
