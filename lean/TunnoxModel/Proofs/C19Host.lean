import TunnoxModel.Spec.C19
/-! C19 — host normalisation lemmas (`extractDomain` against the spec relation `nameOK`). -/
namespace Tunnox.C19

theorem dropWhile_ne_append (p : List Char) (rest : List Char) (hp : ':' ∉ p) :
    (p ++ ':' :: rest).dropWhile (· != ':') = ':' :: rest := by
  induction p with
  | nil => simp
  | cons a p ih =>
    have ha : a ≠ ':' := by intro h; apply hp; simp [h]
    have hp' : ':' ∉ p := by intro h; apply hp; simp [h]
    simp [ha, ih hp']

theorem extractDomainL_nocolon (h : List Char) (hc : ':' ∉ h) : extractDomainL h = h := by
  simp [extractDomainL, hc]

theorem extractDomainL_port (n p : List Char) (hp : ':' ∉ p) : extractDomainL (n ++ ':' :: p) = n := by
  have hc : (n ++ ':' :: p).contains ':' = true := by simp
  have hp' : ':' ∉ p.reverse := by simpa using hp
  simp only [extractDomainL, hc, if_true]
  have : (n ++ ':' :: p).reverse = p.reverse ++ ':' :: n.reverse := by simp
  rw [this, dropWhile_ne_append _ _ hp']
  simp

/-- Every host containing a colon is `extractDomain host ++ ":" ++ port` with a colon-free port part. -/
theorem extractDomainL_split (h : List Char) (hc : ':' ∈ h) :
    ∃ p, ':' ∉ p ∧ h = extractDomainL h ++ ':' :: p := by
  -- split the reversed list at its first colon
  have key : ∀ (l : List Char), ':' ∈ l → ∃ a b, ':' ∉ a ∧ l = a ++ ':' :: b := by
    intro l
    induction l with
    | nil => intro h; cases h
    | cons x l ih =>
      intro hm
      by_cases hx : x = ':'
      · exact ⟨[], l, by simp, by simp [hx]⟩
      · have : ':' ∈ l := by
          cases hm with
          | head => exact absurd rfl hx
          | tail _ h => exact h
        obtain ⟨a, b, ha, hl⟩ := ih this
        refine ⟨x :: a, b, ?_, by simp [hl]⟩
        intro hmem
        cases hmem with
        | head => exact hx rfl
        | tail _ h => exact ha h
  obtain ⟨a, b, ha, hl⟩ := key h.reverse (by simpa using hc)
  have hh : h = b.reverse ++ ':' :: a.reverse := by
    have := congrArg List.reverse hl
    simpa using this
  have ha' : ':' ∉ a.reverse := by simpa using ha
  refine ⟨a.reverse, ha', ?_⟩
  rw [hh, extractDomainL_port _ _ ha']

theorem prefix_drop (d rest : List Char) : (d ++ [':']).isPrefixOf (d ++ ':' :: rest) = true := by
  have : d ++ ':' :: rest = (d ++ [':']) ++ rest := by simp
  rw [this]
  simp

/-- What the code looks up is a name the Host header denotes. -/
theorem nameOK_extractDomain (host : String) : nameOK host (extractDomain host) = true := by
  unfold nameOK extractDomain
  by_cases hc : ':' ∈ host.toList
  · obtain ⟨p, hp, hsplit⟩ := extractDomainL_split host.toList hc
    have hpre : extractDomainL host.toList ++ [':'] <+: host.toList :=
      ⟨p, by rw [List.append_assoc]; simpa using hsplit.symm⟩
    have hdrop : List.drop ((extractDomainL host.toList).length + 1) host.toList = p := by
      conv => lhs; arg 2; rw [hsplit]
      have : extractDomainL host.toList ++ ':' :: p = (extractDomainL host.toList ++ [':']) ++ p := by simp
      rw [this, List.drop_left' (by simp)]
    simp
    right
    exact ⟨hpre, by rw [hdrop]; exact hp⟩
  · rw [extractDomainL_nocolon _ hc]
    simp [String.ofList_toList]

/-- For a colon-free name the relation determines the lookup key. -/
theorem extractDomain_of_nameOK (host d : String) (hd : colonFree d = true) (h : nameOK host d = true) :
    extractDomain host = d := by
  unfold nameOK at h
  unfold colonFree at hd
  have hd' : ':' ∉ d.toList := by simpa using hd
  simp only [Bool.or_eq_true, Bool.and_eq_true, beq_iff_eq] at h
  rcases h with h | ⟨hpre, hrest⟩
  · subst h
    unfold extractDomain
    rw [extractDomainL_nocolon _ hd', String.ofList_toList]
  · obtain ⟨t, ht⟩ := List.isPrefixOf_iff_prefix.mp hpre
    have hh : host.toList = d.toList ++ ':' :: t := by rw [← ht]; simp
    have hdrop : host.toList.drop (d.toList.length + 1) = t := by
      rw [← ht, List.drop_left' (by simp)]
    have ht' : ':' ∉ t := by
      rw [hdrop] at hrest
      simpa using hrest
    unfold extractDomain
    rw [hh, extractDomainL_port _ _ ht', String.ofList_toList]

end Tunnox.C19
