import TunnoxModel.Model.C01
import TunnoxModel.Proofs.Src
/-! Helper lemmas for C01/C05: chunk independence and the writer/reader round trip. -/
namespace Tunnox

def Src.NonEmptyChunks (s : Src) : Prop := ∀ c ∈ s.pending, c ≠ []

theorem readFullChunks_nonempty (cs : List Bytes) (n : Nat) (h : ∀ c ∈ cs, c ≠ []) :
    ∀ c ∈ (readFullChunks cs n).2.1, c ≠ [] := by
  induction cs generalizing n with
  | nil => cases n <;> simp [readFullChunks]
  | cons c cs ih =>
    cases n with
    | zero => simpa [readFullChunks] using h
    | succ n =>
      by_cases hl : c.length ≤ n + 1
      · simp only [readFullChunks, hl, if_true]
        exact ih _ (fun x hx => h x (List.mem_cons_of_mem _ hx))
      · simp only [readFullChunks, hl, if_false]
        intro x hx
        rcases List.mem_cons.mp hx with hx | hx
        · subst hx
          intro hd
          have := congrArg List.length hd
          simp at this; omega
        · exact h x (List.mem_cons_of_mem _ hx)

theorem readFull_ok_nonempty (s : Src) (n : Nat) (d : Bytes) (r : Src)
    (hne : s.NonEmptyChunks) (h : s.readFull n = .ok d r) : r.NonEmptyChunks := by
  cases hb : (readFullChunks s.pending n).2.2
  · simp [Src.readFull, hb] at h
  · simp [Src.readFull, hb] at h
    obtain ⟨_, h2⟩ := h
    subst h2
    exact readFullChunks_nonempty s.pending n hne

namespace C01
open Gen

/-! ### Facts about type bytes (finite tables, closed by kernel evaluation) -/

theorem type_facts : ∀ t, t < 64 →
    (t ||| packet.Compressed) < 128 ∧
    packet.Type.IsHeartbeat (t ||| packet.Compressed) = (t == packet.Heartbeat) ∧
    packet.Type.IsHeartbeat t = (t == packet.Heartbeat) ∧
    packet.Type.IsCompressed (t ||| packet.Compressed) = true ∧
    packet.Type.IsCompressed t = false ∧
    packet.Type.IsEncrypted (t ||| packet.Compressed) = false ∧
    packet.Type.IsEncrypted t = false ∧
    packet.Type.IsJsonCommand (t ||| packet.Compressed) = (t == packet.JsonCommand) ∧
    packet.Type.IsJsonCommand t = (t == packet.JsonCommand) ∧
    packet.Type.IsCommandResp (t ||| packet.Compressed) = (t == packet.CommandResp) ∧
    packet.Type.IsCommandResp t = (t == packet.CommandResp) := by
  decide +kernel

theorem unbe32_be32 (n : Nat) (h : n < 4294967296) : unbe32 (be32 n) = n := by
  simp [unbe32, be32]; omega

theorem be32_length (n : Nat) : (be32 n).length = 4 := rfl

theorem max_lt : constants.MaxPacketBodySize < 4294967296 := by decide

/-! ### readPacket depends only on the flat content -/

theorem readE_false (s : Src) (n : Nat) : s.readE false n = s.read n := by simp [Src.readE]

theorem readPacket_flat (c : Codec) (s : Src) (hne : s.NonEmptyChunks) :
    (readPacket c s).1 = (parseFlat c s.flat).1 ∧
    (readPacket c s).2.flat = (parseFlat c s.flat).2 ∧
    (readPacket c s).2.NonEmptyChunks ∧
    (readPacket c s).2.tail = s.tail := by
  obtain ⟨pending, tail⟩ := s
  cases pending with
  | nil =>
    simp [readPacket, readPacketG, Src.readE, Src.read, parseFlat, Src.flat, Src.NonEmptyChunks]
  | cons ch cs =>
    have hch : ch ≠ [] := hne ch (List.mem_cons_self ..)
    have hcs : ∀ x ∈ cs, x ≠ [] := fun x hx => hne x (List.mem_cons_of_mem _ hx)
    obtain ⟨tb, ch', rfl⟩ : ∃ tb ch', ch = tb :: ch' := by
      cases ch with
      | nil => exact absurd rfl hch
      | cons a b => exact ⟨a, b, rfl⟩
    -- the source after the type byte
    let s1 : Src := if ch' = [] then ⟨cs, tail⟩ else ⟨ch' :: cs, tail⟩
    have hs1flat : s1.flat = ch' ++ cs.flatten := by
      by_cases h : ch' = [] <;> simp [s1, h, Src.flat]
    have hs1ne : s1.NonEmptyChunks := by
      by_cases h : ch' = []
      · simpa [s1, h, Src.NonEmptyChunks] using hcs
      · intro x hx
        simp only [s1, h, if_false, List.mem_cons] at hx
        rcases hx with hx | hx
        · exact hx ▸ h
        · exact hcs x hx
    have hs1tail : s1.tail = tail := by
      by_cases h : ch' = [] <;> simp [s1, h]
    have hread : (Src.read ⟨(tb :: ch') :: cs, tail⟩ constants.PacketTypeSize) = ⟨[tb], none, s1⟩ := by
      by_cases h : ch' = []
      · subst h; simp [Src.read, s1, constants.PacketTypeSize]
      · have : ¬ (ch'.length + 1 ≤ 1) := by
          cases ch' with
          | nil => exact absurd rfl h
          | cons a b => simp
        simp [Src.read, s1, constants.PacketTypeSize, h, this]
    have hflat : (Src.flat ⟨(tb :: ch') :: cs, tail⟩) = tb :: s1.flat := by
      rw [hs1flat]; simp [Src.flat]
    unfold readPacket readPacketG
    rw [readE_false, hread, hflat]
    simp only [parseFlat]
    by_cases hhb : packet.Type.IsHeartbeat tb.toNat
    · simp [hhb, hs1ne, hs1tail]
    · simp only [hhb, Bool.false_eq_true, if_false]
      rw [readFull_flat]
      by_cases h4 : constants.PacketBodySizeBytes ≤ s1.flat.length
      · have h4' : ¬ s1.flat.length < constants.PacketBodySizeBytes := Nat.not_lt.mpr h4
        simp only [h4, if_true, h4', if_false]
        -- source after the length field
        have hok := readFull_flat s1 constants.PacketBodySizeBytes
        rw [if_pos h4] at hok
        have hs2 := readFull_ok_rest_flat s1 _ _ _ hok
        have hs2ne := readFull_ok_nonempty s1 _ _ _ hs1ne hok
        generalize hs2def : (⟨(readFullChunks s1.pending constants.PacketBodySizeBytes).2.1, s1.tail⟩ : Src) = s2 at hs2 hs2ne
        by_cases hbig : unbe32 (List.take constants.PacketBodySizeBytes s1.flat) > constants.MaxPacketBodySize
        · simp only [hbig, if_true]
          exact ⟨trivial, hs2.2.1, hs2ne, by rw [hs2.2.2.1, hs1tail]⟩
        · simp only [hbig, if_false]
          rw [readFull_flat]
          rw [hs2.2.1]
          by_cases hn : unbe32 (List.take constants.PacketBodySizeBytes s1.flat) ≤
              (List.drop constants.PacketBodySizeBytes s1.flat).length
          · have hn' : ¬ (List.drop constants.PacketBodySizeBytes s1.flat).length <
                unbe32 (List.take constants.PacketBodySizeBytes s1.flat) := Nat.not_lt.mpr hn
            simp only [hn, if_true, hn', if_false]
            have hok3 := readFull_flat s2 (unbe32 (List.take constants.PacketBodySizeBytes s1.flat))
            rw [hs2.2.1, if_pos hn] at hok3
            have hs3 := readFull_ok_rest_flat s2 _ _ _ hok3
            have hs3ne := readFull_ok_nonempty s2 _ _ _ hs2ne hok3
            refine ⟨trivial, ?_, hs3ne, ?_⟩
            · rw [hs3.2.1, hs2.2.1]
            · rw [hs2.2.2.1, hs1tail]
          · have hn' : (List.drop constants.PacketBodySizeBytes s1.flat).length <
                unbe32 (List.take constants.PacketBodySizeBytes s1.flat) := Nat.lt_of_not_le hn
            simp only [hn, if_false, hn', if_true]
            refine ⟨trivial, rfl, ?_, ?_⟩
            · intro x hx; simp at hx
            · rw [hs2.2.2.1, hs1tail]
      · have h4' : s1.flat.length < constants.PacketBodySizeBytes := Nat.lt_of_not_le h4
        simp only [h4, if_false, h4', if_true]
        refine ⟨trivial, rfl, ?_, hs1tail⟩
        intro x hx; simp at hx

theorem readAll_flat (c : Codec) (f : Nat) (s : Src) (hne : s.NonEmptyChunks) :
    readAll c f s = parseAll c f s.flat := by
  induction f generalizing s with
  | zero => simp [readAll, parseAll]
  | succ f ih =>
    have h := readPacket_flat c s hne
    unfold readAll parseAll
    generalize hrp : readPacket c s = rp at h
    generalize hpf : parseFlat c s.flat = pf at h
    obtain ⟨o, s'⟩ := rp
    obtain ⟨o', r'⟩ := pf
    simp only at h
    obtain ⟨h1, h2, h3, _⟩ := h
    subst h1
    cases o with
    | fail e => simp [h2]
    | pkt t b => simp [ih s' h3, h2]

/-! ### parse ∘ encode -/

theorem finish_norm (c : Codec) (hrt : c.RT) (p : Pkt) (hwf : WF c p) :
    finish c (wireType p) (wireBody c p) = .pkt (wireType p) p.body := by
  obtain ⟨ty, body, comp⟩ := p
  obtain ⟨hty, _, hlen, _, hjson⟩ := hwf
  simp only at hty hlen hjson
  have tf := type_facts ty hty
  obtain ⟨_, _, _, hc1, hc0, he1, he0, hj1, hj0, hr1, hr0⟩ := tf
  cases comp
  · simp only [finish, wireType, wireBody, Bool.false_eq_true, if_false, he0, hc0, hj0, hr0]
    by_cases hj : ty = packet.JsonCommand
    · subst hj; simp [hjson (Or.inl rfl)]
    · by_cases hr : ty = packet.CommandResp
      · subst hr; simp [hjson (Or.inr rfl)]
      · simp [hj, hr]
  · simp only [finish, wireType, wireBody, decompress, if_true, he1, hc1, hj1, hr1, hrt body, hlen,
      Bool.false_eq_true, if_false]
    by_cases hj : ty = packet.JsonCommand
    · subst hj; simp [hjson (Or.inl rfl)]
    · by_cases hr : ty = packet.CommandResp
      · subst hr; simp [hjson (Or.inr rfl)]
      · simp [hj, hr]

theorem wireType_lt (p : Pkt) (h : p.ty < 64) : wireType p < 128 := by
  unfold wireType
  cases p.comp
  · simp; omega
  · simpa using (type_facts p.ty h).1

theorem isHeartbeat_wireType (p : Pkt) (h : p.ty < 64) :
    packet.Type.IsHeartbeat (wireType p) = (p.ty == packet.Heartbeat) := by
  unfold wireType
  cases p.comp
  · simpa using (type_facts p.ty h).2.2.1
  · simpa using (type_facts p.ty h).2.1

theorem parse_encode (c : Codec) (hrt : c.RT) (p : Pkt) (hwf : WF c p) (rest : Bytes) :
    parseFlat c (encode c p ++ rest) = (.pkt (wireType p) p.body, rest) := by
  have hty := hwf.1
  have hlt := wireType_lt p hty
  have hb : (UInt8.ofNat (wireType p)).toNat = wireType p := by
    simp; omega
  have hhb := isHeartbeat_wireType p hty
  unfold encode
  by_cases hh : p.ty = packet.Heartbeat
  · have : packet.Type.IsHeartbeat (wireType p) = true := by rw [hhb]; simp [hh]
    simp [this, parseFlat, hb, hwf.2.1 hh]
  · have hf : packet.Type.IsHeartbeat (wireType p) = false := by rw [hhb]; simp [hh]
    simp only [hf, Bool.false_eq_true, if_false, List.cons_append, parseFlat, hb]
    have hwl := hwf.2.2.2.1
    have h4 : ¬ (be32 (wireBody c p).length ++ wireBody c p ++ rest).length < constants.PacketBodySizeBytes := by
      simp [be32_length, constants.PacketBodySizeBytes]
    have htake : List.take constants.PacketBodySizeBytes (be32 (wireBody c p).length ++ wireBody c p ++ rest)
        = be32 (wireBody c p).length := by
      rw [List.append_assoc, List.take_append_of_le_length (by simp [be32_length, constants.PacketBodySizeBytes])]
      exact List.take_of_length_le (by simp [be32_length, constants.PacketBodySizeBytes])
    have hdrop : List.drop constants.PacketBodySizeBytes (be32 (wireBody c p).length ++ wireBody c p ++ rest)
        = wireBody c p ++ rest := by
      rw [List.append_assoc, List.drop_append_of_le_length (by simp [be32_length, constants.PacketBodySizeBytes])]
      rw [List.drop_of_length_le (by simp [be32_length, constants.PacketBodySizeBytes])]
      rfl
    have hun : unbe32 (be32 (wireBody c p).length) = (wireBody c p).length :=
      unbe32_be32 _ (Nat.lt_of_le_of_lt hwl max_lt)
    simp only [h4, if_false, htake, hdrop, hun]
    have hnb : ¬ (wireBody c p).length > constants.MaxPacketBodySize := Nat.not_lt.mpr hwl
    simp only [hnb, if_false]
    have hnl : ¬ (wireBody c p ++ rest).length < (wireBody c p).length := by simp
    simp only [hnl, if_false, List.take_left', List.drop_left']
    rw [finish_norm c hrt p hwf]

theorem parseAll_encodeAll (c : Codec) (hrt : c.RT) (ps : List Pkt) (hwf : ∀ p ∈ ps, WF c p) (k : Nat) :
    parseAll c (ps.length + 1 + k) (encodeAll c ps) = ⟨ps.map norm, .type, []⟩ := by
  induction ps with
  | nil => simp [encodeAll, parseAll, parseFlat, Nat.add_comm]
  | cons p ps ih =>
    have hp := hwf p (List.mem_cons_self ..)
    have hps : ∀ q ∈ ps, WF c q := fun q hq => hwf q (List.mem_cons_of_mem _ hq)
    have e : encodeAll c (p :: ps) = encode c p ++ encodeAll c ps := by simp [encodeAll]
    have hf : (p :: ps).length + 1 + k = (ps.length + 1 + k) + 1 := by simp; omega
    rw [e, hf, parseAll, parse_encode c hrt p hp]
    simp [ih hps, norm]

end C01
end Tunnox
