import TunnoxModel.Spec.C17
/-! Helper lemmas for C17: the replay, one preservation lemma per kind of step, the two invariants. -/
namespace Tunnox.C17

/-! ### arithmetic of the cap -/

theorem capOk_succ_of_not_full (P : Proto) (limit n : Nat) (h : full P limit n = false) :
    capOk P.zeroUnl limit (n + 1) = true := by
  unfold full at h
  unfold capOk
  cases hz : P.zeroUnl <;> simp [hz] at h ⊢ <;> omega

theorem capOk_mono (zu : Bool) (limit n m : Nat) (h : capOk zu limit n = true) (hm : m ≤ n) :
    capOk zu limit m = true := by
  unfold capOk at *
  cases zu <;> simp at h ⊢ <;> omega

/-- At the cap, replacing one item keeps the occupancy. -/
theorem capOk_same (zu : Bool) (limit n : Nat) (h : capOk zu limit n = true) : capOk zu limit n = true := h

/-! ### threads -/

@[simp] theorem upd_self (ts : Nat → Thread) (i : Nat) (t : Thread) : upd ts i t i = t := by simp [upd]
theorem upd_ne (ts : Nat → Thread) (i j : Nat) (t : Thread) (h : j ≠ i) : upd ts i t j = ts j := by
  simp [upd, h]

@[simp] theorem finishOp_pc (t : Thread) : (finishOp t).pc = .idle := rfl
@[simp] theorem finishOp_inst (t : Thread) : (finishOp t).inst = t.inst := rfl

/-! ### replay -/

theorem replay_snoc (zu : Bool) (limit pre : Nat) (tr : List Ev) (e : Ev) :
    replay zu limit pre (tr ++ [e]) = specStep zu limit (replay zu limit pre tr) e := by
  simp [replay, List.foldl_append]

/-- The reference occupancy is the model's, every report so far was right and within the cap, and
item numbers below `next` only. -/
structure Base (zu : Bool) (limit pre : Nat) (c : Cfg) : Prop where
  rep : replay zu limit pre c.trace = ⟨c.occ, true⟩
  cap : capOk zu limit c.occ.length = true
  fresh : ∀ x ∈ c.occ, x < c.next
  nd : c.occ.Nodup
  sub : ∀ x ∈ c.occ, x ∈ c.idx

theorem handover_trace (c : Cfg) (i : Nat) : (handover c i).trace = c.trace := by unfold handover; split <;> rfl
theorem handover_occ (c : Cfg) (i : Nat) : (handover c i).occ = c.occ := by unfold handover; split <;> rfl
theorem handover_next (c : Cfg) (i : Nat) : (handover c i).next = c.next := by unfold handover; split <;> rfl
theorem handover_idx (c : Cfg) (i : Nat) : (handover c i).idx = c.idx := by unfold handover; split <;> rfl
theorem unlockCfg_idx (P : Proto) (c : Cfg) (i : Nat) : (unlockCfg P c i).idx = c.idx := by
  unfold unlockCfg; split
  · exact handover_idx c i
  · rfl
theorem unlockCfg_trace (P : Proto) (c : Cfg) (i : Nat) : (unlockCfg P c i).trace = c.trace := by
  unfold unlockCfg; split
  · exact handover_trace c i
  · rfl
theorem unlockCfg_occ (P : Proto) (c : Cfg) (i : Nat) : (unlockCfg P c i).occ = c.occ := by
  unfold unlockCfg; split
  · exact handover_occ c i
  · rfl
theorem unlockCfg_next (P : Proto) (c : Cfg) (i : Nat) : (unlockCfg P c i).next = c.next := by
  unfold unlockCfg; split
  · exact handover_next c i
  · rfl

/-- `Base` speaks about the trace, the occupancy and the item counter only. -/
theorem base_congr {zu : Bool} {limit pre : Nat} {c c' : Cfg} (hb : Base zu limit pre c)
    (h1 : c'.trace = c.trace) (h2 : c'.occ = c.occ) (h3 : c'.next = c.next) (h4 : c'.idx = c.idx) :
    Base zu limit pre c' := by
  refine ⟨?_, ?_, ?_, ?_, ?_⟩
  · rw [h1, h2]; exact hb.rep
  · rw [h2]; exact hb.cap
  · rw [h2, h3]; exact hb.fresh
  · rw [h2]; exact hb.nd
  · rw [h2, h4]; exact hb.sub

theorem base_unlock {zu : Bool} {limit pre : Nat} (P : Proto) {c : Cfg} (hb : Base zu limit pre c) (i : Nat) :
    Base zu limit pre (unlockCfg P c i) :=
  base_congr hb (unlockCfg_trace P c i) (unlockCfg_occ P c i) (unlockCfg_next P c i) (unlockCfg_idx P c i)

theorem base_init (zu : Bool) (limit pre : Nat) (progs : List (Nat × List Op))
    (h : capOk zu limit pre = true) : Base zu limit pre (init pre progs) := by
  refine ⟨rfl, ?_, ?_, ?_, ?_⟩
  · simpa [init] using h
  · intro x hx
    simpa [init] using hx
  · simp [init, List.nodup_range]
  · intro x hx
    simpa [init] using hx

theorem base_initDead (zu : Bool) (limit dead pre : Nat) (progs : List (Nat × List Op))
    (h : capOk zu limit pre = true) : Base zu limit pre (initDead dead pre progs) := by
  refine ⟨rfl, ?_, ?_, ?_, ?_⟩
  · simpa [initDead] using h
  · intro x hx
    simp [initDead] at hx ⊢; omega
  · simp [initDead, List.nodup_range]
  · intro x hx
    simp [initDead] at hx ⊢; omega

theorem base_stp {zu : Bool} {limit pre : Nat} {c : Cfg} (hb : Base zu limit pre c)
    (tid : Nat) (t : Thread) (locks : List Nat) : Base zu limit pre (stpCfg c tid t locks) := by
  refine ⟨?_, hb.cap, hb.fresh, hb.nd, hb.sub⟩
  simp only [stpCfg]
  rw [replay_snoc, hb.rep]
  simp [specStep, hb.cap]

/-- A blocked step: whatever happens to the thread table and the wait queue. -/
theorem base_blk {zu : Bool} {limit pre : Nat} {c c' : Cfg} (hb : Base zu limit pre c) (tid : Nat)
    (h1 : c'.trace = c.trace ++ [.blk tid c.occ.length]) (h2 : c'.occ = c.occ) (h3 : c'.next = c.next)
    (h4 : c'.idx = c.idx) : Base zu limit pre c' := by
  refine ⟨?_, ?_, ?_, ?_, ?_⟩
  · rw [h1, h2, replay_snoc, hb.rep]
    simp [specStep, hb.cap]
  · rw [h2]; exact hb.cap
  · rw [h2, h3]; exact hb.fresh
  · rw [h2]; exact hb.nd
  · rw [h2, h4]; exact hb.sub

theorem base_nop {zu : Bool} {limit pre : Nat} {c : Cfg} (hb : Base zu limit pre c) (tid : Nat) :
    Base zu limit pre (nopCfg c tid) := by
  refine ⟨?_, hb.cap, hb.fresh, hb.nd, hb.sub⟩
  simp only [nopCfg]
  rw [replay_snoc, hb.rep]
  simp [specStep, hb.cap]

theorem base_refuseCore {zu : Bool} {limit pre : Nat} {c : Cfg} (hb : Base zu limit pre c) (tid : Nat) :
    Base zu limit pre (refuseCore c tid) := by
  refine ⟨?_, hb.cap, hb.fresh, hb.nd, hb.sub⟩
  simp only [refuseCore]
  rw [replay_snoc, hb.rep]
  simp [specStep, hb.cap]

theorem base_refuse {limit pre : Nat} (P : Proto) {c : Cfg} (hb : Base P.zeroUnl limit pre c) (tid : Nat) :
    Base P.zeroUnl limit pre (refuseCfg P c tid) := base_unlock P (base_refuseCore hb tid) _

theorem base_done {limit pre : Nat} (P : Proto) {c : Cfg} (hb : Base P.zeroUnl limit pre c) (tid : Nat) :
    Base P.zeroUnl limit pre (doneCfg P c tid) := by
  unfold doneCfg
  exact base_unlock P (base_stp hb tid _ _) _

theorem erase_length_le (l : List Nat) (x : Nat) : (l.erase x).length ≤ l.length := by
  rw [List.length_erase]
  split <;> omega

theorem base_rel {zu : Bool} {limit pre : Nat} {c : Cfg} (hb : Base zu limit pre c) (tid it : Nat)
    (t : Thread) (hin : it ∈ c.occ) :
    Base zu limit pre { c with occ := c.occ.erase it, threads := upd c.threads tid t,
                               trace := c.trace ++ [.rel tid it (c.occ.erase it).length] } := by
  have hcap : capOk zu limit (c.occ.erase it).length = true :=
    capOk_mono zu limit _ _ hb.cap (erase_length_le _ _)
  refine ⟨?_, hcap, ?_, hb.nd.erase it, ?_⟩
  · simp only
    rw [replay_snoc, hb.rep]
    have hc : c.occ.contains it = true := List.contains_iff_mem.mpr hin
    simp only [specStep, hcap, hc, beq_self_eq_true, Bool.and_self]
  · intro x hx
    exact hb.fresh x (List.mem_of_mem_erase hx)
  · intro x hx
    exact hb.sub x (List.mem_of_mem_erase hx)

theorem nodup_snoc' {l : List Nat} {i : Nat} (h : l.Nodup) (hi : i ∉ l) : (l ++ [i]).Nodup := by
  rw [List.nodup_append]
  refine ⟨h, by simp, ?_⟩
  intro a ha b hb
  simp at hb
  subst hb
  intro e; subst e; exact hi ha

theorem next_not_mem {zu : Bool} {limit pre : Nat} {c : Cfg} (hb : Base zu limit pre c) : c.next ∉ c.occ := by
  intro h
  exact Nat.lt_irrefl _ (hb.fresh _ h)

theorem base_admitCore {zu : Bool} {limit pre : Nat} {c : Cfg} (hb : Base zu limit pre c) (tid : Nat)
    (hcap : capOk zu limit (c.occ.length + 1) = true) :
    Base zu limit pre (admitCore c tid c.occ none) := by
  have hn := next_not_mem hb
  refine ⟨?_, ?_, ?_, ?_, ?_⟩
  · simp only [admitCore]
    rw [replay_snoc, hb.rep]
    simp [specStep, hcap, hn]
  · simpa [admitCore] using hcap
  · intro x hx
    simp only [admitCore, List.mem_append, List.mem_singleton] at hx
    rcases hx with hx | hx
    · exact Nat.lt_succ_of_lt (hb.fresh x hx)
    · simp only [admitCore]; omega
  · simp only [admitCore]
    exact nodup_snoc' hb.nd hn
  · intro x hx
    simp only [admitCore, List.mem_append, List.mem_singleton] at hx ⊢
    rcases hx with hx | hx
    · exact Or.inl (hb.sub x hx)
    · exact Or.inr hx

theorem base_admit {limit pre : Nat} (P : Proto) {c : Cfg} (hb : Base P.zeroUnl limit pre c) (tid : Nat)
    (hcap : capOk P.zeroUnl limit (c.occ.length + 1) = true) :
    Base P.zeroUnl limit pre (admitCfg P c tid c.occ none) := base_unlock P (base_admitCore hb tid hcap) _

theorem base_admitCore_evict {zu : Bool} {limit pre : Nat} {c : Cfg} (hb : Base zu limit pre c) (tid v : Nat)
    (r : List Nat) (hocc : c.occ = v :: r) :
    Base zu limit pre (admitCore c tid r (some v)) := by
  have hn := next_not_mem hb
  have hcap : capOk zu limit (r.length + 1) = true := by
    have := hb.cap; rw [hocc] at this; simpa using this
  have her : c.occ.erase v = r := by rw [hocc]; simp
  have hv : v ∈ c.occ := by rw [hocc]; simp
  have hrs : ∀ x ∈ r, x ∈ c.occ := fun x hx => by rw [hocc]; exact List.mem_cons_of_mem _ hx
  refine ⟨?_, ?_, ?_, ?_, ?_⟩
  · simp only [admitCore]
    rw [replay_snoc, hb.rep]
    simp [specStep, hcap, hn, her, hv]
  · simpa [admitCore] using hcap
  · intro x hx
    simp only [admitCore, List.mem_append, List.mem_singleton] at hx
    rcases hx with hx | hx
    · exact Nat.lt_succ_of_lt (hb.fresh x (hrs x hx))
    · simp only [admitCore]; omega
  · simp only [admitCore]
    have hnd : r.Nodup := by have := hb.nd; rw [hocc] at this; exact (List.nodup_cons.mp this).2
    exact nodup_snoc' hnd (fun hx => hn (hrs _ hx))
  · intro x hx
    simp only [admitCore, List.mem_append, List.mem_singleton] at hx ⊢
    rcases hx with hx | hx
    · exact Or.inl (hb.sub x (hrs x hx))
    · exact Or.inr hx

theorem base_admit_evict {limit pre : Nat} (P : Proto) {c : Cfg} (hb : Base P.zeroUnl limit pre c) (tid v : Nat)
    (r : List Nat) (hocc : c.occ = v :: r) :
    Base P.zeroUnl limit pre (admitCfg P c tid r (some v)) :=
  base_unlock P (base_admitCore_evict hb tid v r hocc) _

theorem holds_of_base {zu : Bool} {limit pre : Nat} {c : Cfg} (hb : Base zu limit pre c) :
    holds zu limit pre c.trace c.occ = true := by
  unfold holds
  rw [hb.rep]
  simp

/-! ### invariant A: protocols whose final step decides atomically -/

/-- A thread past the check passed it on the value it carries. -/
def PassedOkT (P : Proto) (limit : Nat) (ts : Nat → Thread) : Prop :=
  ∀ i snap k, (ts i).pc = .passed snap k → full P limit snap = false

def PassedOk (P : Proto) (limit : Nat) (c : Cfg) : Prop := PassedOkT P limit c.threads

structure InvA (P : Proto) (limit pre : Nat) (c : Cfg) : Prop where
  base : Base P.zeroUnl limit pre c
  passed : PassedOk P limit c

theorem passedOkT_upd {P : Proto} {limit : Nat} {ts : Nat → Thread} (hp : PassedOkT P limit ts) (tid : Nat) (t : Thread)
    (ht : ∀ snap k, t.pc = .passed snap k → full P limit snap = false) : PassedOkT P limit (upd ts tid t) := by
  intro i snap k h
  by_cases hi : i = tid
  · subst hi; rw [upd_self] at h; exact ht snap k h
  · rw [upd_ne _ _ _ _ hi] at h; exact hp i snap k h

theorem passedOk_handover {P : Proto} {limit : Nat} {c : Cfg} (hp : PassedOk P limit c) (i : Nat) :
    PassedOk P limit (handover c i) := by
  unfold handover
  split
  · exact passedOkT_upd hp _ _ (by intro s k hh; cases hh)
  · exact hp

theorem passedOk_unlock {P : Proto} {limit : Nat} {c : Cfg} (hp : PassedOk P limit c) (i : Nat) :
    PassedOk P limit (unlockCfg P c i) := by
  unfold unlockCfg
  split
  · exact passedOk_handover hp i
  · exact hp

theorem invA_stp {P : Proto} {limit pre : Nat} {c : Cfg} (h : InvA P limit pre c) (tid : Nat) (t : Thread)
    (locks : List Nat) (ht : ∀ snap k, t.pc = .passed snap k → full P limit snap = false) :
    InvA P limit pre (stpCfg c tid t locks) :=
  ⟨base_stp h.base tid t locks, passedOkT_upd h.passed tid t ht⟩

theorem invA_refuse {P : Proto} {limit pre : Nat} {c : Cfg} (h : InvA P limit pre c) (tid : Nat) :
    InvA P limit pre (refuseCfg P c tid) :=
  by
  refine ⟨base_refuse P h.base tid, ?_⟩
  unfold refuseCfg refuseCore
  apply passedOk_unlock
  exact passedOkT_upd h.passed tid _ (by intro s k hh; cases hh)

theorem invA_done {P : Proto} {limit pre : Nat} {c : Cfg} (h : InvA P limit pre c) (tid : Nat) :
    InvA P limit pre (doneCfg P c tid) :=
  by
  refine ⟨base_done P h.base tid, ?_⟩
  unfold doneCfg
  apply passedOk_unlock
  unfold stpCfg
  exact passedOkT_upd h.passed tid _ (by intro s k hh; cases hh)

theorem invA_admit {P : Proto} {limit pre : Nat} {c : Cfg} (h : InvA P limit pre c) (tid : Nat)
    (hcap : capOk P.zeroUnl limit (c.occ.length + 1) = true) :
    InvA P limit pre (admitCfg P c tid c.occ none) :=
  by
  refine ⟨base_admit P h.base tid hcap, ?_⟩
  unfold admitCfg admitCore
  apply passedOk_unlock
  exact passedOkT_upd h.passed tid _ (by intro s k hh; cases hh)

theorem invA_admit_evict {P : Proto} {limit pre : Nat} {c : Cfg} (h : InvA P limit pre c) (tid v : Nat)
    (r : List Nat) (hocc : c.occ = v :: r) :
    InvA P limit pre (admitCfg P c tid r (some v)) :=
  by
  refine ⟨base_admit_evict P h.base tid v r hocc, ?_⟩
  unfold admitCfg admitCore
  apply passedOk_unlock
  exact passedOkT_upd h.passed tid _ (by intro s k hh; cases hh)

theorem invA_admitHold {P : Proto} {limit pre : Nat} {c : Cfg} (h : InvA P limit pre c) (tid : Nat)
    (hcap : capOk P.zeroUnl limit (c.occ.length + 1) = true) : InvA P limit pre (admitHold P c tid) := by
  refine ⟨base_congr (base_admitCore h.base tid hcap) rfl rfl rfl rfl, ?_⟩
  unfold admitHold
  exact passedOkT_upd h.passed tid _ (by intro s k hh; cases hh)

theorem base_end {zu : Bool} {limit pre : Nat} {c : Cfg} (hb : Base zu limit pre c) (tid : Nat) :
    Base zu limit pre (endCfg c tid) :=
  base_congr (base_stp hb tid (c.threads tid) c.locks) rfl rfl rfl rfl

theorem invA_end {P : Proto} {limit pre : Nat} {c : Cfg} (h : InvA P limit pre c) (tid : Nat) :
    InvA P limit pre (endCfg c tid) := by
  refine ⟨base_end h.base tid, ?_⟩
  unfold endCfg
  exact passedOkT_upd h.passed tid _ (by intro s k hh; cases hh)

theorem invA_revoke {P : Proto} {limit pre : Nat} {c : Cfg} (h : InvA P limit pre c) (tid k : Nat) (fail : Bool) :
    InvA P limit pre (revokeStep c tid k fail) := by
  have hst : ∀ k', InvA P limit pre (stpCfg c tid { c.threads tid with pc := .revoking k' } c.locks) :=
    fun k' => invA_stp h tid _ _ (by intro s k hh; cases hh)
  unfold revokeStep
  split
  · split
    · exact invA_end h tid
    · exact hst 1
  · exact hst _
  · exact hst _
  · split
    · exact hst 4
    · split
      · exact hst 4
      · rename_i it _
        by_cases hin : it ∈ c.occ
        · simp only [hin, if_true]
          exact ⟨base_rel h.base tid it _ hin, passedOkT_upd h.passed tid _ (by intro s k hh; cases hh)⟩
        · simp only [hin, if_false]; exact hst 4
  · exact invA_end h tid

theorem invA_rmw {P : Proto} {limit pre : Nat} {c : Cfg} (h : InvA P limit pre c) (tid : Nat) (isRevoke : Bool)
    (hsw : P.staleWrite = false) : InvA P limit pre (rmwStep P c tid isRevoke) := by
  have hst : ∀ (k : Nat) (locks : List Nat), InvA P limit pre (stpCfg c tid { c.threads tid with pc := .noise k } locks) :=
    fun k locks => invA_stp h tid _ _ (by intro s k hh; cases hh)
  unfold rmwStep
  split
  · split
    · split
      · exact ⟨base_blk (c' := waitCfg c tid) h.base tid rfl rfl rfl rfl,
          passedOkT_upd h.passed tid _ (by intro s k hh; cases hh)⟩
      · exact hst _ _
    · exact hst _ _
  · exact ⟨base_blk (c' := blkCfg c tid) h.base tid rfl rfl rfl rfl, h.passed⟩
  · exact hst _ _
  · split
    · unfold mrevokeWrite
      split
      · rename_i hin
        refine ⟨base_unlock P (base_rel h.base tid 0 _ hin) _, ?_⟩
        apply passedOk_unlock
        unfold relCore
        exact passedOkT_upd h.passed tid _ (by intro s k hh; cases hh)
      · exact invA_done h tid
    · unfold touchWrite
      simp only [hsw, Bool.false_and, Bool.false_eq_true, if_false]
      exact invA_done h tid
  · exact h

theorem invA_blk {P : Proto} {limit pre : Nat} {c : Cfg} (h : InvA P limit pre c) (tid : Nat) :
    InvA P limit pre (blkCfg c tid) :=
  ⟨base_blk h.base tid rfl rfl rfl rfl, h.passed⟩

theorem invA_lock {P : Proto} {limit pre : Nat} {c : Cfg} (h : InvA P limit pre c) (tid : Nat) :
    InvA P limit pre (lockStep c tid) := by
  unfold lockStep
  split
  · exact ⟨base_blk (c' := waitCfg c tid) h.base tid rfl rfl rfl rfl, passedOkT_upd h.passed tid _ (by intro s k hh; cases hh)⟩
  · exact invA_stp h tid _ _ (by intro s k hh; cases hh)

theorem invA_final {P : Proto} {limit pre : Nat} {c : Cfg} (h : InvA P limit pre c) (tid snap : Nat)
    (hfin : P.final ≠ .plain) (hs : P.final = .cas → full P limit snap = false) :
    InvA P limit pre (finalStep P limit c tid snap) := by
  unfold finalStep
  cases hf : P.final with
  | plain => exact absurd hf hfin
  | check =>
    simp only
    cases hfull : full P limit c.occ.length with
    | true => simpa using invA_refuse h tid
    | false => simpa using invA_admit h tid (capOk_succ_of_not_full P limit _ hfull)
  | evict =>
    simp only
    cases hfull : full P limit c.occ.length with
    | true =>
      simp only [if_true]
      cases hocc : c.occ with
      | nil => exact invA_refuse h tid
      | cons v r => exact invA_admit_evict h tid v r hocc
    | false => simpa using invA_admit h tid (capOk_succ_of_not_full P limit _ hfull)
  | cas =>
    simp only
    by_cases he : c.occ.length = snap
    · simp only [he, if_true]
      exact invA_admit h tid (by rw [he]; exact capOk_succ_of_not_full P limit snap (hs hf))
    · simp only [he, if_false]
      apply invA_stp h
      intro s k hh
      cases hm : P.mutex <;> simp [hm] at hh

theorem invA_check {P : Proto} {limit pre : Nat} {c : Cfg} (h : InvA P limit pre c) (tid snap : Nat) :
    InvA P limit pre (checkStep P limit c tid snap) := by
  unfold checkStep
  cases hfull : full P limit snap with
  | true => simpa using invA_refuse h tid
  | false =>
    simp only [Bool.false_eq_true, if_false]
    apply invA_stp h
    intro s k hh
    simp only [PC.passed.injEq] at hh
    rw [← hh.1]; exact hfull

theorem invA_read {P : Proto} {limit pre : Nat} {c : Cfg} (h : InvA P limit pre c) (tid : Nat)
    (hfin : P.final ≠ .plain) (hcas : P.final = .cas → P.early = true) :
    InvA P limit pre (readStep P limit c tid) := by
  unfold readStep
  cases he : P.early with
  | true =>
    simp only [if_true]
    split
    · split
      · exact invA_check h tid _
      · exact invA_stp h tid _ _ (by intro s k hh; cases hh)
    · by_cases hc : P.cnt c.occ.length = 0
      · simp only [hc, if_true]; exact invA_check h tid _
      · simp only [hc, if_false]
        apply invA_stp h
        intro s k hh; simp at hh
  | false =>
    simp only [Bool.false_eq_true, if_false]
    apply invA_final h tid _ hfin
    intro hf
    rw [hcas hf] at he
    exact absurd he (by simp)

theorem invA_scan {P : Proto} {limit pre : Nat} {c : Cfg} (h : InvA P limit pre c) (tid : Nat) (rest : List Nat) (acc : Nat) :
    InvA P limit pre (scanStep P limit c tid rest acc) := by
  unfold scanStep
  split
  · exact invA_check h tid _
  · split
    · exact invA_check h tid _
    · exact invA_stp h tid _ _ (by intro s k hh; cases hh)

theorem invA_noise {P : Proto} {limit pre : Nat} {c : Cfg} (h : InvA P limit pre c) (tid : Nat) :
    InvA P limit pre (noiseStep P limit c tid) := by
  unfold noiseStep
  split
  · split
    · exact invA_done h tid
    · exact invA_stp h tid _ _ (by intro s k hh; cases hh)
  · exact invA_done h tid

theorem invA_step {P : Proto} {limit pre : Nat} {c : Cfg} (h : InvA P limit pre c) (tid : Nat)
    (hfin : P.final ≠ .plain) (hcas : P.final = .cas → P.early = true) (hfu : P.fused = false)
    (hsw : P.staleWrite = false) :
    InvA P limit pre (stepThread P limit c tid) := by
  unfold stepThread
  split
  · exact h
  · split
    · exact ⟨base_nop h.base tid, passedOkT_upd h.passed tid _ (by intro s k hh; cases hh)⟩
    · rename_i it _
      by_cases hin : it ∈ c.occ
      · simp only [hin, if_true]
        exact ⟨base_rel h.base tid it _ hin, passedOkT_upd h.passed tid _ (by intro s k hh; cases hh)⟩
      · simp only [hin, if_false]
        exact ⟨base_nop h.base tid, passedOkT_upd h.passed tid _ (by intro s k hh; cases hh)⟩
  · split
    · simp only [hfu, Bool.false_eq_true, if_false]
      split
      · exact invA_lock h tid
      · exact invA_read h tid hfin hcas
    · exact invA_blk h tid
    · simp only [hfu, Bool.false_eq_true, if_false]
      exact invA_read h tid hfin hcas
    · rename_i snap k hpc
      by_cases hk : k ≤ 1
      · simp only [hk, if_true]; exact invA_check h tid snap
      · simp only [hk, if_false]
        apply invA_stp h
        intro s k' hh; simp at hh
    · rename_i snap k hpc
      split
      · apply invA_final h tid snap hfin
        intro _
        exact h.passed tid snap 0 hpc
      · rename_i k'
        apply invA_stp h
        intro s k'' hh
        simp only [PC.passed.injEq] at hh
        rw [← hh.1]
        exact h.passed tid snap (k' + 1) hpc
    · split
      · exact invA_done h tid
      · exact invA_stp h tid _ _ (by intro s k hh; cases hh)
    · simp only [hfu, Bool.false_eq_true, if_false]
      exact h
    · exact invA_scan h tid _ _
    · exact h
  · exact invA_rmw h tid false hsw
  · exact invA_rmw h tid true hsw
  · split
    · split
      · exact invA_stp h tid _ _ (by intro s k hh; cases hh)
      · exact invA_end h tid
    · exact invA_revoke h tid _ _
    · exact h
  · split
    · split
      · exact invA_lock h tid
      · exact invA_noise h tid
    · exact invA_blk h tid
    · exact invA_noise h tid
    · split
      · exact invA_done h tid
      · exact invA_stp h tid _ _ (by intro s k hh; cases hh)
    · exact h
    · exact h
    · exact h
    · exact h
    · exact h

theorem invA_run {P : Proto} {limit pre : Nat} (hfin : P.final ≠ .plain) (hcas : P.final = .cas → P.early = true)
    (hfu : P.fused = false) (hsw : P.staleWrite = false) (σ : List Nat) (c : Cfg) (h : InvA P limit pre c) :
    InvA P limit pre (run P limit c σ) := by
  induction σ generalizing c with
  | nil => exact h
  | cons t r ih =>
    simp only [run, List.foldl_cons]
    exact ih _ (invA_step h t hfin hcas hfu hsw)

theorem invA_init (P : Proto) (limit pre : Nat) (progs : List (Nat × List Op))
    (h : capOk P.zeroUnl limit pre = true) : InvA P limit pre (init pre progs) := by
  refine ⟨base_init _ _ _ _ h, ?_⟩
  intro i snap k hh
  simp only [init, mkThreads] at hh
  split at hh <;> simp [mkThread] at hh

end Tunnox.C17
