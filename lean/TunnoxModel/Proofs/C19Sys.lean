import TunnoxModel.Model.C19Sys
/-! C19 — facts about the entry points (handlers, adapter, cleanup) for every store and every input. -/
namespace Tunnox.C19
open Gen

def expiredEntry (now : Nat) (d : Nat × Nat × Nat) : Bool := d.2.2 != 0 && decide (d.2.2 < now)

theorem isExpired_entry {now : Nat} {r : Rec} (h : repos.HTTPDomainMapping.IsExpired now r = true) (n : Nat) :
    expiredEntry now (n, r.ClientID, r.ExpiresAt) = true := by
  unfold repos.HTTPDomainMapping.IsExpired at h
  unfold expiredEntry
  by_cases h0 : r.ExpiresAt = 0
  · simp [h0] at h
  · have : (r.ExpiresAt == 0) = false := by simp [h0]
    simp only [this, Bool.false_eq_true, if_false, decide_eq_true_eq] at h
    simp [h0]; omega

theorem cleanupFold_ok (cf : Config) : ∀ (l : List Nat) (s : Store) (k : Nat) (acc : List (Nat × Nat × Nat)),
    (∀ d, d ∈ acc → expiredEntry cf.now d = true) → acc.length ≤ k →
    (∀ d, d ∈ (cleanupFold cf l s k acc).2.2 → expiredEntry cf.now d = true) ∧
    (cleanupFold cf l s k acc).2.2.length ≤ (cleanupFold cf l s k acc).2.1 := by
  intro l
  induction l with
  | nil =>
    intro s k acc h1 h2
    simp only [cleanupFold]
    exact ⟨fun d hd => h1 d (List.mem_reverse.mp hd), by simpa using h2⟩
  | cons n rest ih =>
    intro s k acc h1 h2
    simp only [cleanupFold]
    split
    · rename_i r hr
      split
      · rename_i hexp
        split
        · split
          · apply ih
            · intro d hd
              simp only [List.mem_cons] at hd
              rcases hd with e | hd
              · subst e; exact isExpired_entry hexp n
              · exact h1 d hd
            · simp only [List.length_cons]; omega
          · exact ih _ _ _ h1 (by omega)
        · exact ih _ _ _ h1 h2
      · exact ih _ _ _ h1 h2
    · exact ih _ _ _ h1 h2

/-- **Entry-point clauses, every store, every input**: `CleanupExpiredMappings` removes only expired mappings (and
reports at least as many as it removed); the create handler refuses only for its own four reasons; both handlers refuse
an unauthenticated connection and never act with client 0. -/
theorem entryOK_model (cf : Config) (s : Store) (h : HOp) : entryOK cf h (stepH cf s h).2 = true := by
  cases h with
  | hcreate client sub base scheme host port ttl =>
    simp only [stepH]
    split
    · simp [entryOK]
    · split
      · simp [entryOK]
      · split
        · simp [entryOK]
        · split
          · simp [entryOK]
          · split <;> simp [entryOK]
  | hdelete client id =>
    simp only [stepH]
    split
    · rename_i hc; simp only [beq_iff_eq] at hc; simp [entryOK, hc]
    · rename_i hc; simp only [beq_iff_eq] at hc; simp [entryOK, hc]
  | cleanup =>
    simp only [stepH]
    split
    · simp [entryOK]
    · simp only [entryOK]
      rename_i l _
      obtain ⟨h1, h2⟩ := cleanupFold_ok cf (liveIds s l) { s with globalList := some (liveIds s l) } 0 []
        (by intro d hd; cases hd) (Nat.le_refl _)
      rw [Bool.and_eq_true, List.all_eq_true, decide_eq_true_eq]
      exact ⟨fun d hd => h1 d hd, h2⟩
  | listClient c => simp only [stepH]; split <;> simp [entryOK]
  | listAll => simp only [stepH]; split <;> simp [entryOK]
  | avail sub base => simp [stepH, entryOK]
  | serve host => simp only [stepH]; split <;> simp [entryOK]
  | op o => simp [stepH, entryOK]

/-- The delete handler acts with the connection's client: on a mapping of another client it is refused, and index,
record and lists stay as they were. -/
theorem hdelete_foreign (cf : Config) (s : Store) (client id : Nat) (r : Rec) (hc : client ≠ 0)
    (hd : s.data id = some r) (hne : r.ClientID ≠ client) :
    (stepH cf s (.hdelete client id)).2 = .res (.err coreerrors.CodeForbidden) ∧
    (stepH cf s (.hdelete client id)).1.index = s.index ∧ (stepH cf s (.hdelete client id)).1.data = s.data := by
  have hc' : (client == 0) = false := by simp [hc]
  have hne' : (r.ClientID != client) = true := by simp [hne]
  simp [stepH, hc', seqOp, seqOpAux, stepOp, stepDelete, hd, hne']

end Tunnox.C19
