import TunnoxModel.Model.Src
/-! Chunk independence of `readFull`: the result depends only on the flattened source. -/
namespace Tunnox

theorem readFullChunks_spec (cs : List Bytes) (n : Nat) :
    (readFullChunks cs n).1 = cs.flatten.take n ∧
    (readFullChunks cs n).2.1.flatten = cs.flatten.drop n ∧
    ((readFullChunks cs n).2.2 = true ↔ n ≤ cs.flatten.length) := by
  induction cs generalizing n with
  | nil =>
    cases n with
    | zero => simp [readFullChunks]
    | succ n => simp [readFullChunks]
  | cons c cs ih =>
    cases n with
    | zero => simp [readFullChunks]
    | succ n =>
      by_cases h : c.length ≤ n + 1
      · have ih' := ih (n + 1 - c.length)
        simp only [readFullChunks, h, if_true, List.flatten_cons]
        refine ⟨?_, ?_, ?_⟩
        · rw [ih'.1, List.take_append]
          simp [List.take_of_length_le h]
        · rw [ih'.2.1, List.drop_append]
          simp [List.drop_of_length_le h]
        · rw [ih'.2.2]; simp only [List.length_append]; omega
      · have h' : n + 1 < c.length := Nat.lt_of_not_le h
        simp only [readFullChunks, h, if_false, List.flatten_cons]
        refine ⟨?_, ?_, ?_⟩
        · rw [List.take_append_of_le_length (Nat.le_of_lt h')]
        · rw [List.drop_append_of_le_length (Nat.le_of_lt h')]
        · simp only [List.length_append, true_iff]; omega

/-- `readFull` in terms of the flat content only. -/
theorem readFull_flat (s : Src) (n : Nat) :
    s.readFull n =
      if n ≤ s.flat.length then
        .ok (s.flat.take n) ⟨(readFullChunks s.pending n).2.1, s.tail⟩
      else .short s.flat s.tail := by
  have h := readFullChunks_spec s.pending n
  unfold Src.readFull Src.flat
  by_cases hn : n ≤ s.pending.flatten.length
  · have hb : (readFullChunks s.pending n).2.2 = true := h.2.2.mpr hn
    rw [if_pos hn]
    simp only [hb, if_true, h.1]
  · have hb : (readFullChunks s.pending n).2.2 = false := by
      cases hb : (readFullChunks s.pending n).2.2 with
      | false => rfl
      | true => exact absurd (h.2.2.mp hb) hn
    rw [if_neg hn]
    simp only [hb, h.1, Bool.false_eq_true, if_false]
    rw [List.take_of_length_le (Nat.le_of_lt (Nat.lt_of_not_le hn))]

theorem readFull_ok_rest_flat (s : Src) (n : Nat) (d : Bytes) (r : Src)
    (h : s.readFull n = .ok d r) :
    d = s.flat.take n ∧ r.flat = s.flat.drop n ∧ r.tail = s.tail ∧ n ≤ s.flat.length := by
  rw [readFull_flat] at h
  by_cases hn : n ≤ s.flat.length
  · simp [hn] at h
    obtain ⟨h1, h2⟩ := h
    subst h1 h2
    exact ⟨rfl, (readFullChunks_spec s.pending n).2.1, rfl, hn⟩
  · simp [hn] at h

end Tunnox
