import TunnoxModel.Spec.C20
import TunnoxModel.Proofs.Src
/-! Helper lemmas for C20. -/
-- one simp set serves several match arms; unused members in one arm are expected
set_option linter.unusedSimpArgs false

namespace Tunnox.C20
open Gen

/-! ### Read programs depend only on the flat content of the source -/

theorem P.runSrc_flat {α : Type} (p : P α) (s : Src) :
    (p.runSrc s).1 = (p.runFlat s.flat).1 ∧ (p.runSrc s).2.flat = (p.runFlat s.flat).2 := by
  induction p generalizing s with
  | done a => simp [P.runSrc, P.runFlat]
  | read n e k ih =>
    simp only [P.runSrc, P.runFlat]
    rw [readFull_flat]
    by_cases hn : n ≤ s.flat.length
    · simp only [hn, if_true]
      have hok := readFull_flat s n
      rw [if_pos hn] at hok
      have hs := readFull_ok_rest_flat s _ _ _ hok
      have := ih (s.flat.take n) ⟨(readFullChunks s.pending n).2.1, s.tail⟩
      rw [hs.2.1] at this
      exact this
    · simp only [hn, if_false]
      exact ⟨trivial, rfl⟩

theorem runFlat_length_le {α : Type} (p : P α) (bs : Bytes) : (p.runFlat bs).2.length ≤ bs.length := by
  induction p generalizing bs with
  | done a => simp [P.runFlat]
  | read n e k ih =>
    simp only [P.runFlat]
    by_cases hn : n ≤ bs.length
    · simp only [hn, if_true]
      have := ih (bs.take n) (bs.drop n)
      simp only [List.length_drop] at this
      omega
    · simp [hn]

/-! ### Small facts -/

theorem isPrefixOf_self_append (w x : Bytes) : w.isPrefixOf (w ++ x) = true := by
  induction w with
  | nil => simp [List.isPrefixOf]
  | cons a w ih => simp [List.isPrefixOf, ih]

theorem drop_self_append (w x : Bytes) : (w ++ x).drop w.length = x := by
  induction w with
  | nil => rfl
  | cons a w ih => simp [ih]

theorem toNat_beq (m : Byte) (k : Nat) (hk : k < 256) : (m.toNat == k) = (m == u8 k) := by
  have h1 : (u8 k).toNat = k := by simp [u8, UInt8.toNat_ofNat']; omega
  by_cases h : m = u8 k
  · subst h; simp [h1]
  · have : m.toNat ≠ k := by
      intro h2; apply h; apply UInt8.toNat_inj.mp; rw [h1]; exact h2
    have h' : (m == u8 k) = false := by simpa using h
    rw [h']; simpa using this
theorem any_toNat_eq (l : Bytes) (k : Nat) (hk : k < 256) :
    l.any (fun m => m.toNat == k) = l.contains (u8 k) := by
  induction l with
  | nil => rfl
  | cons a l ih =>
    rw [List.any_cons, List.contains_cons, ih, toNat_beq a k hk]
    rw [BEq.comm (a := a)]

theorem reply_failure : isFailureReply (sendError socks5.RepFailure) = true := by decide
theorem reply_cmd : isReply 7 (sendError socks5.RepCmdNotSupp) = true := by decide
theorem reply_atyp : isReply 8 (sendError socks5.RepAddrNotSupp) = true := by decide

theorem readPort_flat (w : Bytes) (cmd : Nat) (host : Text) (bs : Bytes) :
    (readPort w cmd host).runFlat bs =
      match bs with
      | p1 :: p2 :: tl => (⟨.ok ⟨cmd, host, p1.toNat * 256 + p2.toNat⟩, w⟩, tl)
      | _ => (⟨.fail .readPort, w⟩, []) := by
  match bs with
  | [] => simp [readPort, P.runFlat]
  | [a] => simp [readPort, P.runFlat]
  | a :: b :: tl => simp [readPort, P.runFlat, be16, byteAt]

theorem request_agrees (c : IPText) (w : Bytes) (off total : Nat) (bs : Bytes)
    (ht : total = off + bs.length) :
    agrees (hsExpect c) (decodeReq listenerProfile off w bs)
      ((request c w).runFlat bs).1.out.res ((request c w).runFlat bs).1.written
      (total - ((request c w).runFlat bs).2.length) = true := by
  match bs, ht with
  | [], ht => simp [request, P.runFlat, decodeReq, agrees, HsOut.res, replyFor, ht]
  | [_], ht => simp [request, P.runFlat, decodeReq, agrees, HsOut.res, replyFor, ht]
  | [_, _], ht => simp [request, P.runFlat, decodeReq, agrees, HsOut.res, replyFor, ht]
  | [_, _, _], ht => simp [request, P.runFlat, decodeReq, agrees, HsOut.res, replyFor, ht]
  | ver :: cmd :: rsv :: atyp :: rest, ht =>
    have h4 : 4 ≤ (ver :: cmd :: rsv :: atyp :: rest).length := by simp
    simp only [request, P.runFlat, h4, if_true, decodeReq, List.take, List.drop, byteAt, List.getD_cons_zero,
      List.getD_cons_succ, socks5.Version, socks5.CmdConnect, socks5.CmdUDPAssoc, socks5.AddrIPv4,
      socks5.AddrDomain, socks5.AddrIPv6]
    have hcons : (ver :: cmd :: rsv :: atyp :: rest).length = rest.length + 4 := by simp
    rw [hcons] at ht
    rw [hcons]
    by_cases hv' : ver.toNat ≠ 5
    · simp [hv', P.runFlat, agrees, HsOut.res, replyFor, reply_failure, isPrefixOf_self_append,
        drop_self_append, ht] <;> omega
    have hv : ver.toNat = 5 := by omega
    by_cases hc' : cmd.toNat ≠ 1 ∧ cmd.toNat ≠ 3
    · simp [hv, hc', listenerProfile, P.runFlat, agrees, HsOut.res, replyFor, reply_cmd, isPrefixOf_self_append,
        drop_self_append, ht] <;> omega
    have hc : cmd.toNat = 1 ∨ cmd.toNat = 3 := by omega
    have hc1 : ¬ (cmd.toNat ≠ 1 ∧ cmd.toNat ≠ 3) := by omega
    have hc2 : listenerProfile.cmds.contains cmd.toNat = true := by
      rcases hc with h | h <;> simp [listenerProfile, h]
    simp only [hv, hc1, hc2, ne_eq, not_true_eq_false, if_false, not_false_eq_true]
    by_cases ha1 : atyp.toNat = 1
    · simp only [ha1, if_true, decAddr, P.runFlat]
      by_cases hl : 4 ≤ rest.length
      · have hrl : (rest.drop 4).length = rest.length - 4 := by simp
        have htl : (rest.take 4).length = 4 := by simp; omega
        simp only [hl, if_true, readPort_flat]
        generalize rest.drop 4 = r at hrl
        match r, hrl with
        | [], hrl => simp [agrees, HsOut.res, replyFor, ht]
        | [_], hrl => simp [agrees, HsOut.res, replyFor, ht]
        | p1 :: p2 :: tl, hrl =>
          simp [agrees, HsOut.res, hsExpect, hostText, Addr.enc, ht] at hrl ⊢
          omega
      · simp [hl, agrees, HsOut.res, replyFor, ht]
    by_cases ha4 : atyp.toNat = 4
    · simp only [ha4, if_true, decAddr, P.runFlat, show ¬ (4 = 1) by decide, show ¬ (4 = 3) by decide, if_false]
      by_cases hl : 16 ≤ rest.length
      · have hrl : (rest.drop 16).length = rest.length - 16 := by simp
        have htl : (rest.take 16).length = 16 := by simp; omega
        simp only [hl, if_true, readPort_flat]
        generalize rest.drop 16 = r at hrl
        match r, hrl with
        | [], hrl => simp [agrees, HsOut.res, replyFor, ht]
        | [_], hrl => simp [agrees, HsOut.res, replyFor, ht]
        | p1 :: p2 :: tl, hrl =>
          simp [agrees, HsOut.res, hsExpect, hostText, Addr.enc, ht] at hrl ⊢
          omega
      · simp [hl, agrees, HsOut.res, replyFor, ht]
    by_cases ha3 : atyp.toNat = 3
    · simp only [ha3, if_true, decAddr, P.runFlat, show ¬ (3 = 1) by decide, show ¬ (3 = 4) by decide, if_false]
      match rest, ht with
      | [], ht => simp [agrees, HsOut.res, replyFor, ht]
      | l :: r0, ht =>
        simp only [List.length_cons, Nat.le_add_left, if_true, List.take, List.drop, List.getD_cons_zero, P.runFlat]
        by_cases hl : l.toNat ≤ r0.length
        · have hrl : (r0.drop l.toNat).length = r0.length - l.toNat := by simp
          have htl : (r0.take l.toNat).length = l.toNat := by simp; omega
          simp only [hl, if_true, readPort_flat]
          generalize r0.drop l.toNat = r at hrl
          match r, hrl with
          | [], hrl => simp [agrees, HsOut.res, replyFor, ht]
          | [_], hrl => simp [agrees, HsOut.res, replyFor, ht]
          | p1 :: p2 :: tl, hrl =>
            simp [agrees, HsOut.res, hsExpect, hostText, Addr.enc, ht] at hrl ⊢
            omega
        · simp [hl, agrees, HsOut.res, replyFor, ht]
    simp [ha1, ha3, ha4, decAddr, P.runFlat, agrees, HsOut.res, replyFor, reply_atyp, isPrefixOf_self_append,
      drop_self_append, ht] <;> omega

/-- `Listener.Handshake` on a flat byte string satisfies the property. -/
theorem handshake_flat_holds (c : IPText) (bs : Bytes) :
    holdsHs c bs (hsObs bs ((handshakeP c).runFlat bs).1 ((handshakeP c).runFlat bs).2.length) = true := by
  unfold holdsHs holdsNeg hsObs
  match bs with
  | [] => simp [handshakeP, P.runFlat, decodeNeg, agrees, HsOut.res, replyFor]
  | [_] => simp [handshakeP, P.runFlat, decodeNeg, agrees, HsOut.res, replyFor]
  | ver :: nm :: rest =>
    have h2 : 2 ≤ (ver :: nm :: rest).length := by simp
    have hcons : (ver :: nm :: rest).length = rest.length + 2 := by simp
    simp only [handshakeP, P.runFlat, h2, if_true, decodeNeg, List.take, List.drop, byteAt, List.getD_cons_zero,
      List.getD_cons_succ, socks5.Version, socks5.AuthNone, socks5.AuthNoMatch]
    rw [hcons]
    by_cases hv : ver.toNat ≠ 5
    · simp [hv, P.runFlat, agrees, HsOut.res, replyFor]
    by_cases hn : nm.toNat = 0
    · simp [hv, hn, P.runFlat, agrees, HsOut.res, replyFor]
    by_cases hl : rest.length < nm.toNat
    · have hl' : ¬ nm.toNat ≤ rest.length := by omega
      simp [hv, hn, hl, hl', P.runFlat, agrees, HsOut.res, replyFor]
    have hl' : nm.toNat ≤ rest.length := by omega
    have hany := any_toNat_eq (rest.take nm.toNat) 0 (by decide)
    simp only [hv, hn, hl, hl', if_false, if_true, P.runFlat, hany, listenerProfile]
    by_cases hm : (rest.take nm.toNat).contains (u8 0) = true
    · simp only [hm, not_true_eq_false, if_false, if_true]
      have hreq := request_agrees c [u8 5, u8 0] (2 + nm.toNat) (rest.length + 2) (rest.drop nm.toNat)
        (by simp; omega)
      exact hreq
    · simp only [hm, not_false_eq_true, if_true, Bool.false_eq_true, if_false, P.runFlat]
      simp [agrees, HsOut.res, replyFor, u8]
      omega

/-! ### The adapter -/

theorem isPrefixOf_self (w : Bytes) : w.isPrefixOf w = true := by
  simp

theorem ad_reply_cmd : isReply 7 (sendReply0 adapter.socksRepCommandNotSupported) = true := by decide
theorem ad_reply_atyp : isReply 8 (sendReply0 adapter.socksRepAddrTypeNotSupported) = true := by decide

theorem adPort_flat (w : Bytes) (host : Text) (bs : Bytes) :
    (adPort w host).runFlat bs =
      match bs with
      | p1 :: p2 :: tl => (⟨.ok (host ++ [58] ++ decText (p1.toNat * 256 + p2.toNat)), w⟩, tl)
      | _ => (⟨.fail .readPort, w⟩, []) := by
  match bs with
  | [] => simp [adPort, P.runFlat]
  | [a] => simp [adPort, P.runFlat]
  | a :: b :: tl => simp [adPort, P.runFlat, be16, byteAt]

theorem adRequest_agrees (c : IPText) (pf : Profile) (hpf : pf.cmds = [1]) (w : Bytes) (off total : Nat) (bs : Bytes)
    (ht : total = off + bs.length) :
    agrees (adExpect c) (decodeReq pf off w bs)
      ((adRequest c w).runFlat bs).1.out.res ((adRequest c w).runFlat bs).1.written
      (total - ((adRequest c w).runFlat bs).2.length) = true := by
  match bs, ht with
  | [], ht => simp [adRequest, P.runFlat, decodeReq, agrees, AdOut.res, replyFor, ht]
  | [_], ht => simp [adRequest, P.runFlat, decodeReq, agrees, AdOut.res, replyFor, ht]
  | [_, _], ht => simp [adRequest, P.runFlat, decodeReq, agrees, AdOut.res, replyFor, ht]
  | [_, _, _], ht => simp [adRequest, P.runFlat, decodeReq, agrees, AdOut.res, replyFor, ht]
  | ver :: cmd :: rsv :: atyp :: rest, ht =>
    have h4 : 4 ≤ (ver :: cmd :: rsv :: atyp :: rest).length := by simp
    simp only [adRequest, P.runFlat, h4, if_true, decodeReq, List.take, List.drop, byteAt, List.getD_cons_zero,
      List.getD_cons_succ, adapter.socks5Version, adapter.socksCmdConnect, adapter.socksAddrTypeIPv4,
      adapter.socksAddrTypeDomain, adapter.socksAddrTypeIPv6]
    have hcons : (ver :: cmd :: rsv :: atyp :: rest).length = rest.length + 4 := by simp
    rw [hcons] at ht
    rw [hcons]
    by_cases hv' : ver.toNat ≠ 5
    · simp [hv', P.runFlat, agrees, AdOut.res, replyFor, isPrefixOf_self, ht] <;> omega
    have hv : ver.toNat = 5 := by omega
    by_cases hc' : cmd.toNat ≠ 1
    · simp [hv, hc', hpf, P.runFlat, agrees, AdOut.res, replyFor, ad_reply_cmd, isPrefixOf_self_append,
        drop_self_append, ht] <;> omega
    have hc : cmd.toNat = 1 := by omega
    have hc1 : ¬ (cmd.toNat ≠ 1) := by omega
    have hc2 : pf.cmds.contains cmd.toNat = true := by simp [hpf, hc]
    simp only [hv, hc1, hc2, ne_eq, not_true_eq_false, if_false, not_false_eq_true]
    by_cases ha1 : atyp.toNat = 1
    · simp only [ha1, if_true, decAddr, P.runFlat]
      by_cases hl : 4 ≤ rest.length
      · have hrl : (rest.drop 4).length = rest.length - 4 := by simp
        have htl : (rest.take 4).length = 4 := by simp; omega
        simp only [hl, if_true, adPort_flat]
        generalize rest.drop 4 = r at hrl
        match r, hrl with
        | [], hrl => simp [agrees, AdOut.res, replyFor, ht]
        | [_], hrl => simp [agrees, AdOut.res, replyFor, ht]
        | p1 :: p2 :: tl, hrl =>
          simp [agrees, AdOut.res, adExpect, hostText, Addr.enc, ht] at hrl ⊢
          omega
      · simp [hl, agrees, AdOut.res, replyFor, ht]
    by_cases ha4 : atyp.toNat = 4
    · simp only [ha4, if_true, decAddr, P.runFlat, show ¬ (4 = 1) by decide, show ¬ (4 = 3) by decide, if_false]
      by_cases hl : 16 ≤ rest.length
      · have hrl : (rest.drop 16).length = rest.length - 16 := by simp
        have htl : (rest.take 16).length = 16 := by simp; omega
        simp only [hl, if_true, adPort_flat]
        generalize rest.drop 16 = r at hrl
        match r, hrl with
        | [], hrl => simp [agrees, AdOut.res, replyFor, ht]
        | [_], hrl => simp [agrees, AdOut.res, replyFor, ht]
        | p1 :: p2 :: tl, hrl =>
          simp [agrees, AdOut.res, adExpect, hostText, Addr.enc, ht] at hrl ⊢
          omega
      · simp [hl, agrees, AdOut.res, replyFor, ht]
    by_cases ha3 : atyp.toNat = 3
    · simp only [ha3, if_true, decAddr, P.runFlat, show ¬ (3 = 1) by decide, show ¬ (3 = 4) by decide, if_false]
      match rest, ht with
      | [], ht => simp [agrees, AdOut.res, replyFor, ht]
      | l :: r0, ht =>
        simp only [List.length_cons, Nat.le_add_left, if_true, List.take, List.drop, List.getD_cons_zero, P.runFlat]
        by_cases hl : l.toNat ≤ r0.length
        · have hrl : (r0.drop l.toNat).length = r0.length - l.toNat := by simp
          have htl : (r0.take l.toNat).length = l.toNat := by simp; omega
          simp only [hl, if_true, adPort_flat]
          generalize r0.drop l.toNat = r at hrl
          match r, hrl with
          | [], hrl => simp [agrees, AdOut.res, replyFor, ht]
          | [_], hrl => simp [agrees, AdOut.res, replyFor, ht]
          | p1 :: p2 :: tl, hrl =>
            simp [agrees, AdOut.res, adExpect, hostText, Addr.enc, ht] at hrl ⊢
            omega
        · simp [hl, agrees, AdOut.res, replyFor, ht]
    simp [ha1, ha3, ha4, decAddr, P.runFlat, agrees, AdOut.res, replyFor, ad_reply_atyp, isPrefixOf_self_append,
      drop_self_append, ht] <;> omega


theorem getD_of_drop (l : Bytes) (n : Nat) (x : Byte) (r : Bytes) (h : l.drop n = x :: r) :
    l.getD n 0 = x ∧ l.drop (n + 1) = r := by
  constructor
  · have : (l.drop n)[0]? = some x := by rw [h]; rfl
    rw [List.getElem?_drop, Nat.add_zero] at this
    simp [List.getD_eq_getElem?_getD, this]
  · have : (l.drop n).drop 1 = r := by rw [h]; rfl
    rw [List.drop_drop] at this
    simpa [Nat.add_comm] using this

theorem adAuth_agrees (c : IPText) (cfg : AdCfg) (pf : Profile) (hpf : pf.cmds = [1]) (w : Bytes)
    (off total : Nat) (bs : Bytes) (ht : total = off + bs.length) :
    agrees (adExpect c) (decodeAuth pf cfg.user cfg.pass off w bs)
      ((adPasswordAuth c cfg w).runFlat bs).1.out.res ((adPasswordAuth c cfg w).runFlat bs).1.written
      (total - ((adPasswordAuth c cfg w).runFlat bs).2.length) = true := by
  match bs, ht with
  | [], ht => simp [adPasswordAuth, P.runFlat, decodeAuth, agrees, AdOut.res, replyFor, ht]
  | [_], ht => simp [adPasswordAuth, P.runFlat, decodeAuth, agrees, AdOut.res, replyFor, ht]
  | ver :: ulen :: rest, ht =>
    have h2 : 2 ≤ (ver :: ulen :: rest).length := by simp
    have hcons : (ver :: ulen :: rest).length = rest.length + 2 := by simp
    simp only [adPasswordAuth, P.runFlat, h2, if_true, decodeAuth, List.take, List.drop, byteAt,
      List.getD_cons_zero, List.getD_cons_succ]
    rw [hcons] at ht
    rw [hcons]
    by_cases hv : ver.toNat ≠ 1
    · simp [hv, P.runFlat, agrees, AdOut.res, replyFor, isPrefixOf_self, ht] <;> omega
    simp only [hv, if_false, P.runFlat]
    by_cases hu : ulen.toNat ≤ rest.length
    · simp only [hu, if_true]
      have hdl : (rest.drop ulen.toNat).length = rest.length - ulen.toNat := by simp
      cases hd : rest.drop ulen.toNat with
      | nil =>
        rw [hd] at hdl
        have : rest.length < ulen.toNat + 1 := by simp at hdl; omega
        simp [this, agrees, AdOut.res, replyFor, ht]
      | cons x r1 =>
        rw [hd] at hdl
        have hlt : ¬ rest.length < ulen.toNat + 1 := by simp at hdl; omega
        obtain ⟨hg, hdr⟩ := getD_of_drop rest ulen.toNat x r1 hd
        simp only [hlt, if_false, List.length_cons, Nat.le_add_left, if_true, List.take, List.drop,
          List.getD_cons_zero, hg, hdr, P.runFlat]
        by_cases hp : x.toNat ≤ r1.length
        · have hp' : ¬ r1.length < x.toNat := by omega
          simp only [hp, hp', if_true, if_false]
          by_cases hcr : rest.take ulen.toNat = cfg.user ∧ r1.take x.toNat = cfg.pass
          · simp only [hcr, and_self, if_true]
            have hreq := adRequest_agrees c pf hpf (w ++ [1, 0]) (off + 2 + ulen.toNat + 1 + x.toNat)
              (total) (r1.drop x.toNat) (by simp at hdl ⊢; omega)
            exact hreq
          · simp only [hcr, if_false, P.runFlat]
            simp [agrees, AdOut.res, replyFor, isPrefixOf_self_append, drop_self_append, ht] at hdl ⊢
            omega
        · have hp' : r1.length < x.toNat := by omega
          simp [hp, hp', agrees, AdOut.res, replyFor, ht]
    · have : rest.length < ulen.toNat + 1 := by omega
      simp [hu, this, agrees, AdOut.res, replyFor, ht]

/-- `handleHandshake` + `handleRequest` on a flat byte string satisfy the property. -/
theorem adHandshake_flat_holds (c : IPText) (cfg : AdCfg) (bs : Bytes) :
    holdsAd c cfg bs
      (adObs bs ((adHandshakeP c cfg).runFlat bs).1 ((adHandshakeP c cfg).runFlat bs).2.length) = true := by
  unfold holdsAd holdsNeg adObs
  match bs with
  | [] => simp [adHandshakeP, P.runFlat, decodeNeg, agrees, AdOut.res, replyFor]
  | [_] => simp [adHandshakeP, P.runFlat, decodeNeg, agrees, AdOut.res, replyFor]
  | ver :: nm :: rest =>
    have h2 : 2 ≤ (ver :: nm :: rest).length := by simp
    have hcons : (ver :: nm :: rest).length = rest.length + 2 := by simp
    simp only [adHandshakeP, P.runFlat, h2, if_true, decodeNeg, List.take, List.drop, byteAt, List.getD_cons_zero,
      List.getD_cons_succ, adapter.socks5Version, adapter.socksAuthNone, adapter.socksAuthNoMatch,
      adapter.socksAuthPassword]
    rw [hcons]
    by_cases hv : ver.toNat ≠ 5
    · simp [hv, P.runFlat, agrees, AdOut.res, replyFor]
    by_cases hl : rest.length < nm.toNat
    · have hl' : ¬ nm.toNat ≤ rest.length := by omega
      have hn : ¬ nm.toNat = 0 := by omega
      simp [hv, hn, hl, hl', P.runFlat, agrees, AdOut.res, replyFor]
    have hl' : nm.toNat ≤ rest.length := by omega
    simp only [hv, hl, hl', if_false, if_true, P.runFlat]
    by_cases hn : nm.toNat = 0
    · cases hauth : cfg.auth <;>
        simp [hn, hauth, P.runFlat, agrees, AdOut.res, replyFor, u8]
    simp only [hn, if_false]
    cases hauth : cfg.auth
    · have hany := any_toNat_eq (rest.take nm.toNat) 0 (by decide)
      have hpf : adapterProfile cfg = ⟨0, none, [1]⟩ := by simp [adapterProfile, hauth]
      simp only [hpf, hany, Bool.false_eq_true, if_false]
      by_cases hm : (rest.take nm.toNat).contains (u8 0) = true
      · simp only [hm, not_true_eq_false, if_false, if_true]
        exact adRequest_agrees c ⟨0, none, [1]⟩ rfl [u8 5, u8 0] (2 + nm.toNat) (rest.length + 2)
          (rest.drop nm.toNat) (by simp; omega)
      · simp only [hm, not_false_eq_true, if_true, Bool.false_eq_true, if_false, P.runFlat]
        simp [agrees, AdOut.res, replyFor, u8]
        omega
    · have hany := any_toNat_eq (rest.take nm.toNat) 2 (by decide)
      have hpf : adapterProfile cfg = ⟨2, some (cfg.user, cfg.pass), [1]⟩ := by simp [adapterProfile, hauth]
      simp only [hpf, hany, if_true]
      by_cases hm : (rest.take nm.toNat).contains (u8 2) = true
      · simp only [hm, not_true_eq_false, if_false, if_true]
        exact adAuth_agrees c cfg ⟨2, some (cfg.user, cfg.pass), [1]⟩ rfl [u8 5, u8 2] (2 + nm.toNat)
          (rest.length + 2) (rest.drop nm.toNat) (by simp; omega)
      · simp only [hm, not_false_eq_true, if_true, Bool.false_eq_true, if_false, P.runFlat]
        simp [agrees, AdOut.res, replyFor, u8]
        omega

/-! ### UDP datagram header -/

theorem toNat_eq_zero (b : Byte) : b.toNat = 0 ↔ b = 0 := by
  constructor
  · intro h; apply UInt8.toNat_inj.mp; simpa using h
  · intro h; subst h; rfl

/-- `parseUDPHeader` returns exactly what the RFC reference assigns to the datagram. -/
theorem parseUDP_spec (c : IPText) (data : Bytes) : (parseUDPHeader c data).res = udpExpect c data := by
  match data with
  | [] => simp [parseUDPHeader, udpExpect, decodeUDP, UOut.res]
  | [_] => simp [parseUDPHeader, udpExpect, decodeUDP, UOut.res]
  | [_, _] => simp [parseUDPHeader, udpExpect, decodeUDP, UOut.res]
  | [_, _, _] => simp [parseUDPHeader, udpExpect, decodeUDP, UOut.res]
  | r1 :: r2 :: frag :: atyp :: rest =>
    have hlen : (r1 :: r2 :: frag :: atyp :: rest).length = rest.length + 4 := by simp
    have h4 : ¬ (rest.length + 4 < 4) := by omega
    simp only [parseUDPHeader, udpExpect, decodeUDP, hlen, h4, if_false, byteAt, List.getD_cons_zero,
      List.getD_cons_succ, socks5.AddrIPv4, socks5.AddrDomain, socks5.AddrIPv6]
    by_cases hf : frag ≠ 0
    · have : frag.toNat ≠ 0 := fun h => hf ((toNat_eq_zero frag).mp h)
      simp [hf, this, UOut.res]
    have hf0 : frag = 0 := by simpa using hf
    subst hf0
    simp only [show (0 : Byte).toNat = 0 from rfl, ne_eq, not_true_eq_false, if_false, List.drop_succ_cons,
      List.drop_zero]
    by_cases ha1 : atyp.toNat = 1
    · simp only [ha1, if_true, decAddr]
      have h6 : rest.drop 6 = (rest.drop 4).drop 2 := by simp [List.drop_drop]
      by_cases hl : 4 ≤ rest.length
      · have hrl : (rest.drop 4).length = rest.length - 4 := by simp
        simp only [hl, if_true, udpFinish, List.drop_succ_cons, List.drop_zero, Nat.reduceSub, h6]
        generalize rest.drop 4 = r at hrl
        match r, hrl with
        | [], hrl =>
          have : rest.length + 4 < 10 := by simp at hrl; omega
          simp [this, UOut.res]
        | [_], hrl =>
          have : rest.length + 4 < 10 := by simp at hrl; omega
          simp [this, UOut.res]
        | p1 :: p2 :: tl, hrl =>
          have : ¬ rest.length + 4 < 10 := by simp at hrl; omega
          simp [this, UOut.res, hostText, be16, byteAt]
      · have : rest.length + 4 < 10 := by omega
        simp [this, hl, UOut.res]
    by_cases ha4 : atyp.toNat = 4
    · simp only [ha4, if_true, decAddr, show ¬ (4 = 1) by decide, show ¬ (4 = 3) by decide, if_false]
      have h6 : rest.drop 18 = (rest.drop 16).drop 2 := by simp [List.drop_drop]
      by_cases hl : 16 ≤ rest.length
      · have hrl : (rest.drop 16).length = rest.length - 16 := by simp
        simp only [hl, if_true, udpFinish, List.drop_succ_cons, List.drop_zero, Nat.reduceSub, h6]
        generalize rest.drop 16 = r at hrl
        match r, hrl with
        | [], hrl =>
          have : rest.length + 4 < 22 := by simp at hrl; omega
          simp [this, UOut.res]
        | [_], hrl =>
          have : rest.length + 4 < 22 := by simp at hrl; omega
          simp [this, UOut.res]
        | p1 :: p2 :: tl, hrl =>
          have : ¬ rest.length + 4 < 22 := by simp at hrl; omega
          simp [this, UOut.res, hostText, be16, byteAt]
      · have : rest.length + 4 < 22 := by omega
        simp [this, hl, UOut.res]
    by_cases ha3 : atyp.toNat = 3
    · simp only [ha3, if_true, decAddr, show ¬ (3 = 1) by decide, show ¬ (3 = 4) by decide, if_false]
      match rest with
      | [] => simp [UOut.res]
      | l :: r0 =>
        have h5 : ¬ ((l :: r0).length + 4 < 5) := by simp
        have e1 : 5 + l.toNat + 2 - 2 = l.toNat + 5 := by omega
        have e2 : 5 + l.toNat + 2 = (l.toNat + 2) + 5 := by omega
        have d1 : List.drop (l.toNat + 5) (r1 :: r2 :: (0 : Byte) :: atyp :: l :: r0) = List.drop l.toNat r0 := by
          simp
        have d2 : List.drop (5 + l.toNat) ((0 : Byte) :: atyp :: l :: r0) = (r0.drop l.toNat).drop 2 := by
          rw [show 5 + l.toNat = l.toNat + 2 + 3 by omega]
          simp [List.drop_drop]
        simp only [h5, if_false, List.getD_cons_zero, List.drop_succ_cons, List.drop_zero, udpFinish, e1, d1]
        rw [e2, d2]
        by_cases hl : l.toNat ≤ r0.length
        · have hrl : (r0.drop l.toNat).length = r0.length - l.toNat := by simp
          simp only [hl, if_true]
          generalize r0.drop l.toNat = r at hrl
          match r, hrl with
          | [], hrl =>
            have : r0.length < l.toNat + 2 := by simp at hrl; omega
            simp [this, UOut.res]
          | [_], hrl =>
            have : r0.length < l.toNat + 2 := by simp at hrl; omega
            simp [this, UOut.res]
          | p1 :: p2 :: tl, hrl =>
            have : ¬ r0.length < l.toNat + 2 := by simp at hrl; omega
            simp [this, UOut.res, hostText, be16, byteAt]
        · have : r0.length < l.toNat + 2 := by omega
          simp [this, hl, UOut.res]
    simp [ha1, ha3, ha4, decAddr, UOut.res]

/-! ### buildUDPHeader then parseUDPHeader -/

theorem toNat_u8 (n : Nat) (h : n < 256) : (u8 n).toNat = n := by
  simp [u8, UInt8.toNat_ofNat']; omega

theorem be16_putBe16 (p : Nat) (hp : p < 65536) : be16 (putBe16 p) = p := by
  have h1 : p / 256 % 256 < 256 := Nat.mod_lt _ (by decide)
  have h2 : p % 256 < 256 := Nat.mod_lt _ (by decide)
  simp [be16, putBe16, byteAt, toNat_u8 _ h1, toNat_u8 _ h2]
  omega

theorem putBe16_length (p : Nat) : (putBe16 p).length = 2 := rfl

theorem udpFinish4 (a b c d : Byte) (addr : Bytes) (p : Nat) (payload : Bytes) (host : Text) (k : Nat)
    (hk : 4 + addr.length + 2 = k) (hp : p < 65536) :
    udpFinish (a :: b :: c :: d :: (addr ++ (putBe16 p ++ payload))) host k = .ok ⟨host, p, payload⟩ := by
  subst hk
  have e1 : 4 + addr.length + 2 - 2 = addr.length + 4 := by omega
  have e2 : 4 + addr.length + 2 = (addr.length + 2) + 4 := by omega
  have d2 : List.drop (addr.length + 2) (addr ++ (putBe16 p ++ payload)) = payload := by
    rw [← List.append_assoc]
    have : (addr ++ putBe16 p).length = addr.length + 2 := by simp [putBe16_length]
    rw [← this, List.drop_left]
  have t2 : List.take 2 (putBe16 p ++ payload) = putBe16 p := by
    rw [← putBe16_length p, List.take_left]
  simp only [udpFinish, e1, List.drop_succ_cons, List.drop_left, t2, be16_putBe16 p hp]
  rw [show 4 + addr.length = (addr.length + 2) + 2 by omega]
  simp only [List.drop_succ_cons, d2]

theorem udpFinish5 (a b c d e : Byte) (addr : Bytes) (p : Nat) (payload : Bytes) (host : Text) (k : Nat)
    (hk : 5 + addr.length + 2 = k) (hp : p < 65536) :
    udpFinish (a :: b :: c :: d :: e :: (addr ++ (putBe16 p ++ payload))) host k = .ok ⟨host, p, payload⟩ := by
  have := udpFinish4 b c d e addr p payload host (k - 1) (by omega) hp
  simp only [udpFinish] at this ⊢
  have e1 : k - 2 = (k - 1 - 2) + 1 := by omega
  have e2 : k = (k - 1) + 1 := by omega
  rw [e1, List.drop_succ_cons]
  conv => lhs; arg 1; arg 3; rw [e2, List.drop_succ_cons]
  exact this

theorem build_parse (c : IPText) (hrt : c.RT) (host : Text) (port : Nat) (payload : Bytes)
    (hp : port < 65536) (hh : c.parse host = none → host.length ≤ 255) :
    parseUDPHeader c (buildUDPHeader c host port payload) = .ok ⟨rebuiltHost c host, port, payload⟩ := by
  unfold buildUDPHeader rebuiltHost
  cases hpar : c.parse host with
  | none =>
    have hl := hh hpar
    have hmod : host.length % 256 = host.length := Nat.mod_eq_of_lt (by omega)
    simp only [hmod, List.cons_append, List.nil_append, List.append_assoc, parseUDPHeader, byteAt,
      List.getD_cons_zero, List.getD_cons_succ, List.length_cons, List.length_append, putBe16_length,
      socks5.AddrDomain, socks5.AddrIPv4, socks5.AddrIPv6, toNat_u8 3 (by decide), toNat_u8 host.length (by omega),
      show (0 : Byte).toNat = 0 from rfl, List.drop_succ_cons, List.drop_zero, List.take_left]
    have c1 : ¬ (host.length + (2 + payload.length) + 1 + 1 + 1 + 1 + 1 < 4) := by omega
    have c2 : ¬ (host.length + (2 + payload.length) + 1 + 1 + 1 + 1 + 1 < 5) := by omega
    have c3 : ¬ (host.length + (2 + payload.length) + 1 + 1 + 1 + 1 + 1 < 5 + host.length + 2) := by omega
    simp only [c1, c2, c3, if_false, ne_eq, not_true_eq_false, show ¬ (3 = 1) by decide, if_true]
    exact udpFinish5 _ _ _ _ _ host port payload host _ rfl hp
  | some ip =>
    rcases hrt.shape host ip hpar with h4 | ⟨h16, _⟩
    · simp only [h4, if_true, List.cons_append, List.nil_append, List.append_assoc, parseUDPHeader, byteAt,
        List.getD_cons_zero, List.getD_cons_succ, List.length_cons, List.length_append, putBe16_length,
        socks5.AddrIPv4, toNat_u8 1 (by decide), show (0 : Byte).toNat = 0 from rfl, List.drop_succ_cons,
        List.drop_zero]
      have c1 : ¬ (4 + (2 + payload.length) + 1 + 1 + 1 + 1 < 4) := by omega
      have c2 : ¬ (4 + (2 + payload.length) + 1 + 1 + 1 + 1 < 10) := by omega
      have t : List.take 4 (ip ++ (putBe16 port ++ payload)) = ip := by rw [← h4, List.take_left]
      simp only [c1, c2, if_false, ne_eq, not_true_eq_false, if_true, t]
      exact udpFinish4 _ _ _ _ ip port payload _ 10 (by omega) hp
    · have h4 : ¬ ip.length = 4 := by omega
      simp only [h4, if_false]
      simp only [List.cons_append, List.nil_append, List.append_assoc, parseUDPHeader, byteAt,
        List.getD_cons_zero, List.getD_cons_succ, List.length_cons, List.length_append, putBe16_length,
        socks5.AddrIPv4, socks5.AddrDomain, socks5.AddrIPv6, toNat_u8 4 (by decide),
        show (0 : Byte).toNat = 0 from rfl, List.drop_succ_cons, List.drop_zero, h16]
      have c1 : ¬ (16 + (2 + payload.length) + 1 + 1 + 1 + 1 < 4) := by omega
      have c2 : ¬ (16 + (2 + payload.length) + 1 + 1 + 1 + 1 < 22) := by omega
      have t : List.take 16 (ip ++ (putBe16 port ++ payload)) = ip := by rw [← h16, List.take_left]
      simp only [c1, c2, if_false, ne_eq, not_true_eq_false, if_true, t, show ¬ (4 = 1) by decide,
        show ¬ (4 = 3) by decide]
      exact udpFinish4 _ _ _ _ ip port payload _ 22 (by omega) hp

/-! ### The reference decoders accept exactly the grammar -/

theorem u8_toNat (b : Byte) : u8 b.toNat = b := by
  apply UInt8.toNat_inj.mp
  rw [toNat_u8 _ (UInt8.toNat_lt b)]

theorem decAddr_ok (atyp : Nat) (bs : Bytes) (a : Addr) (rest : Bytes) (h : decAddr atyp bs = .ok a rest) :
    a.WF = true ∧ bs = a.enc ++ rest ∧ atyp = a.atyp := by
  unfold decAddr at h
  by_cases h1 : atyp = 1
  · simp only [h1, if_true] at h
    by_cases hl : 4 ≤ bs.length
    · simp only [hl, if_true, AddrRes.ok.injEq] at h
      obtain ⟨ha, hr⟩ := h
      subst ha hr
      refine ⟨by simp [Addr.WF]; omega, by simp [Addr.enc], by simp [h1, Addr.atyp]⟩
    · simp [hl] at h
  by_cases h4 : atyp = 4
  · simp only [h4, show ¬ (4 = 1) by decide, if_false, if_true] at h
    by_cases hl : 16 ≤ bs.length
    · simp only [hl, if_true, AddrRes.ok.injEq] at h
      obtain ⟨ha, hr⟩ := h
      subst ha hr
      refine ⟨by simp [Addr.WF]; omega, by simp [Addr.enc], by simp [h4, Addr.atyp]⟩
    · simp [hl] at h
  by_cases h3 : atyp = 3
  · simp only [h3, show ¬ (3 = 1) by decide, show ¬ (3 = 4) by decide, if_false, if_true] at h
    match bs, h with
    | [], h => simp at h
    | l :: r, h =>
      by_cases hl : l.toNat ≤ r.length
      · simp only [hl, if_true, AddrRes.ok.injEq] at h
        obtain ⟨ha, hr⟩ := h
        subst ha hr
        have hlt := UInt8.toNat_lt l
        have hlen : (List.take l.toNat r).length = l.toNat := by simp; omega
        refine ⟨by simp [Addr.WF]; omega, ?_, by simp [h3, Addr.atyp]⟩
        simp [Addr.enc, hlen, u8_toNat]
      · simp [hl] at h
  · simp [h1, h3, h4] at h

theorem decodeUDP_accept (bs : Bytes) (a : Addr) (port : Nat) (payload : Bytes)
    (h : decodeUDP bs = .accept a port payload) :
    a.WF = true ∧ port < 65536 ∧ ∃ r1 r2, bs = (⟨r1, r2, a, port, payload⟩ : Datagram).enc := by
  match bs, h with
  | r1 :: r2 :: frag :: atyp :: rest, h =>
    simp only [decodeUDP] at h
    by_cases hf : frag ≠ 0
    · simp [hf] at h
    have hf0 : frag = 0 := by simpa using hf
    simp only [hf, if_false] at h
    cases hd : decAddr atyp.toNat rest with
    | bad => simp [hd] at h
    | short => simp [hd] at h
    | ok a' rest' =>
      rw [hd] at h
      match rest', h, hd with
      | p1 :: p2 :: pl, h, hd =>
        simp only [UVerdict.accept.injEq] at h
        obtain ⟨ha, hp, hpl⟩ := h
        subst ha hpl
        obtain ⟨hwf, hbs, hat⟩ := decAddr_ok _ _ _ _ hd
        have h1 := UInt8.toNat_lt p1
        have h2 := UInt8.toNat_lt p2
        refine ⟨hwf, by omega, r1, r2, ?_⟩
        subst hp hf0
        have e1 : (p1.toNat * 256 + p2.toNat) / 256 = p1.toNat := by omega
        have e2 : (p1.toNat * 256 + p2.toNat) % 256 = p2.toNat := by omega
        simp [Datagram.enc, encPort, hbs, ← hat, u8_toNat, e1, e2]

/-! ### The negotiation reference accepts only sentences of the grammar -/

theorem decodeReq_accept (pf : Profile) (off : Nat) (pre bs : Bytes) (cmd : Nat) (a : Addr) (port used : Nat)
    (pre' : Bytes) (h : decodeReq pf off pre bs = .accept cmd a port used pre') :
    ∃ (rsv : Byte) (rest : Bytes),
      bs = (⟨cmd, rsv, a, port⟩ : Request).enc ++ rest ∧ (⟨cmd, rsv, a, port⟩ : Request).WF = true ∧
      pf.cmds.contains cmd = true ∧ used = off + (⟨cmd, rsv, a, port⟩ : Request).enc.length ∧ pre' = pre := by
  match bs, h with
  | ver :: c :: rsv :: atyp :: rest, h =>
    simp only [decodeReq] at h
    by_cases hv : ver.toNat ≠ 5
    · simp [hv] at h
    by_cases hc : ¬ pf.cmds.contains c.toNat = true
    · simp only [hv, hc, not_false_eq_true, if_true, if_false] at h
      cases h
    simp only [hv, hc, if_false] at h
    cases hd : decAddr atyp.toNat rest with
    | bad => simp [hd] at h
    | short => simp [hd] at h
    | ok a' rest' =>
      rw [hd] at h
      match rest', h, hd with
      | p1 :: p2 :: tl, h, hd =>
        simp only [Verdict.accept.injEq] at h
        obtain ⟨hcmd, ha, hp, hu, hpre⟩ := h
        subst hcmd ha hpre
        obtain ⟨hwf, hbs, hat⟩ := decAddr_ok _ _ _ _ hd
        have h1 := UInt8.toNat_lt p1
        have h2 := UInt8.toNat_lt p2
        have hcl := UInt8.toNat_lt c
        have hv5 : ver = 5 := by
          apply UInt8.toNat_inj.mp
          have : ver.toNat = 5 := by omega
          simpa using this
        refine ⟨rsv, tl, ?_, ?_, by simpa using hc, ?_, rfl⟩
        · subst hp hv5
          have e1 : (p1.toNat * 256 + p2.toNat) / 256 = p1.toNat := by omega
          have e2 : (p1.toNat * 256 + p2.toNat) % 256 = p2.toNat := by omega
          simp [Request.enc, encPort, hbs, ← hat, u8_toNat, e1, e2]
        · simp [Request.WF, hwf, hcl]
          omega
        · subst hu
          simp [Request.enc, encPort]
          omega

theorem decodeNeg_accept (pf : Profile) (hpf : pf.creds = none) (bs : Bytes) (cmd : Nat) (a : Addr)
    (port used : Nat) (pre : Bytes) (h : decodeNeg pf bs = .accept cmd a port used pre) :
    ∃ (methods : Bytes) (rsv : Byte) (rest : Bytes),
      bs = encGreeting methods ++ ((⟨cmd, rsv, a, port⟩ : Request).enc ++ rest) ∧
      0 < methods.length ∧ methods.length ≤ 255 ∧ methods.contains (u8 pf.method) = true ∧
      (⟨cmd, rsv, a, port⟩ : Request).WF = true ∧ pf.cmds.contains cmd = true ∧
      used = (encGreeting methods).length + (⟨cmd, rsv, a, port⟩ : Request).enc.length ∧
      pre = [5, u8 pf.method] := by
  match bs, h with
  | ver :: nm :: rest, h =>
    simp only [decodeNeg] at h
    by_cases hv : ver.toNat ≠ 5
    · simp [hv] at h
    by_cases hn : nm.toNat = 0
    · simp [hv, hn] at h
    by_cases hl : rest.length < nm.toNat
    · simp [hv, hn, hl] at h
    by_cases hm : ¬ (rest.take nm.toNat).contains (u8 pf.method) = true
    · simp only [hv, hn, hl, hm, not_false_eq_true, if_true, if_false] at h
      cases h
    simp only [hv, hn, hl, hm, if_false, hpf] at h
    obtain ⟨rsv, tl, hbs, hwf, hc, hu, hpre⟩ := decodeReq_accept _ _ _ _ _ _ _ _ _ h
    have hnl := UInt8.toNat_lt nm
    have htl : (rest.take nm.toNat).length = nm.toNat := by simp; omega
    have hv5 : ver = 5 := by
      apply UInt8.toNat_inj.mp
      have : ver.toNat = 5 := by omega
      simpa using this
    refine ⟨rest.take nm.toNat, rsv, tl, ?_, by omega, by omega, by simpa using hm, hwf, hc, ?_, hpre⟩
    · subst hv5
      rw [← hbs]
      simp [encGreeting, htl, u8_toNat]
    · subst hu
      simp [encGreeting, htl]
      omega

theorem decodeAuth_accept (pf : Profile) (user pass : Text) (off : Nat) (pre bs : Bytes) (cmd : Nat) (a : Addr)
    (port used : Nat) (pre' : Bytes) (h : decodeAuth pf user pass off pre bs = .accept cmd a port used pre') :
    ∃ (rsv : Byte) (rest : Bytes),
      bs = encAuth user pass ++ ((⟨cmd, rsv, a, port⟩ : Request).enc ++ rest) ∧
      user.length ≤ 255 ∧ pass.length ≤ 255 ∧
      (⟨cmd, rsv, a, port⟩ : Request).WF = true ∧ pf.cmds.contains cmd = true ∧
      used = off + (encAuth user pass).length + (⟨cmd, rsv, a, port⟩ : Request).enc.length ∧
      pre' = pre ++ [1, 0] := by
  match bs, h with
  | ver :: ulen :: rest, h =>
    simp only [decodeAuth] at h
    by_cases hv : ver.toNat ≠ 1
    · simp [hv] at h
    by_cases hl : rest.length < ulen.toNat + 1
    · simp [hv, hl] at h
    simp only [hv, hl, if_false] at h
    by_cases hp : (rest.drop (ulen.toNat + 1)).length < byteAt rest ulen.toNat
    · simp only [hp, if_true] at h
      cases h
    simp only [hp, if_false] at h
    by_cases hcr : ¬ (rest.take ulen.toNat = user ∧
        (rest.drop (ulen.toNat + 1)).take (byteAt rest ulen.toNat) = pass)
    · simp only [hcr, if_false] at h
      cases h
    have hcr : rest.take ulen.toNat = user ∧
        (rest.drop (ulen.toNat + 1)).take (byteAt rest ulen.toNat) = pass := Classical.not_not.mp hcr
    simp only [hcr, and_self, if_true] at h
    obtain ⟨rsv, tl, hbs, hwf, hc, hu, hpre⟩ := decodeReq_accept _ _ _ _ _ _ _ _ _ h
    have hul := UInt8.toNat_lt ulen
    have hi : ulen.toNat < rest.length := by omega
    have hdrop : rest.drop ulen.toNat = rest[ulen.toNat] :: rest.drop (ulen.toNat + 1) :=
      List.drop_eq_getElem_cons hi
    have hx : byteAt rest ulen.toNat = (rest[ulen.toNat]).toNat := by
      simp [byteAt, List.getD_eq_getElem?_getD, hi]
    have hxl := UInt8.toNat_lt (rest[ulen.toNat])
    have huser : user.length = ulen.toNat := by rw [← hcr.1]; simp; omega
    have hpass : pass.length = byteAt rest ulen.toNat := by
      rw [← hcr.2]; simp only [List.length_take, List.length_drop] at hp ⊢; omega
    have hv1 : ver = 1 := by
      apply UInt8.toNat_inj.mp
      have : ver.toNat = 1 := by omega
      simpa using this
    refine ⟨rsv, tl, ?_, by omega, by omega, hwf, hc, ?_, hpre⟩
    · have e1 : rest = rest.take ulen.toNat ++ rest.drop ulen.toNat := (List.take_append_drop _ _).symm
      have e2 : rest.drop (ulen.toNat + 1) =
          (rest.drop (ulen.toNat + 1)).take (byteAt rest ulen.toNat) ++
            (rest.drop (ulen.toNat + 1)).drop (byteAt rest ulen.toNat) := (List.take_append_drop _ _).symm
      rw [hcr.2, hbs] at e2
      rw [hdrop, e2, hcr.1] at e1
      subst hv1
      rw [e1]
      simp [encAuth, huser, hpass, hx, u8_toNat]
    · subst hu
      simp [encAuth, huser, hpass]
      omega

theorem decodeNeg_accept_auth (pf : Profile) (user pass : Text) (hpf : pf.creds = some (user, pass)) (bs : Bytes)
    (cmd : Nat) (a : Addr) (port used : Nat) (pre : Bytes) (h : decodeNeg pf bs = .accept cmd a port used pre) :
    ∃ (methods : Bytes) (rsv : Byte) (rest : Bytes),
      bs = encGreeting methods ++ (encAuth user pass ++ ((⟨cmd, rsv, a, port⟩ : Request).enc ++ rest)) ∧
      0 < methods.length ∧ methods.length ≤ 255 ∧ methods.contains (u8 pf.method) = true ∧
      user.length ≤ 255 ∧ pass.length ≤ 255 ∧
      (⟨cmd, rsv, a, port⟩ : Request).WF = true ∧ pf.cmds.contains cmd = true ∧
      used = (encGreeting methods).length + (encAuth user pass).length +
        (⟨cmd, rsv, a, port⟩ : Request).enc.length ∧
      pre = [5, u8 pf.method, 1, 0] := by
  match bs, h with
  | ver :: nm :: rest, h =>
    simp only [decodeNeg] at h
    by_cases hv : ver.toNat ≠ 5
    · simp [hv] at h
    by_cases hn : nm.toNat = 0
    · simp [hv, hn] at h
    by_cases hl : rest.length < nm.toNat
    · simp [hv, hn, hl] at h
    by_cases hm : ¬ (rest.take nm.toNat).contains (u8 pf.method) = true
    · simp only [hv, hn, hl, hm, not_false_eq_true, if_true, if_false] at h
      cases h
    simp only [hv, hn, hl, hm, if_false, hpf] at h
    obtain ⟨rsv, tl, hbs, hu1, hp1, hwf, hc, hu, hpre⟩ := decodeAuth_accept _ _ _ _ _ _ _ _ _ _ _ h
    have hnl := UInt8.toNat_lt nm
    have htl : (rest.take nm.toNat).length = nm.toNat := by simp; omega
    have hv5 : ver = 5 := by
      apply UInt8.toNat_inj.mp
      have : ver.toNat = 5 := by omega
      simpa using this
    refine ⟨rest.take nm.toNat, rsv, tl, ?_, by omega, by omega, by simpa using hm, hu1, hp1, hwf, hc, ?_, ?_⟩
    · subst hv5
      rw [← hbs]
      simp [encGreeting, htl, u8_toNat]
    · subst hu
      simp [encGreeting, htl]
      omega
    · rw [hpre]; rfl

/-! ### Round trip -/

theorem parse_ipString (c : IPText) (hrt : c.RT) (b : Bytes)
    (hb : b.length = 4 ∨ (b.length = 16 ∧ isV4Mapped b = false)) : c.parse (ipString c b) = some b := by
  unfold ipString
  rcases hb with h4 | ⟨h16, hm⟩
  · simp [h4, hrt.parse4 b h4]
  · have : ¬ b.length = 4 := by omega
    simp [this, hm, hrt.parse16 b h16 hm]

/-- The text of any 4- or 16-byte address is an IP literal for `ParseIP`. -/
theorem parse_ipString_isSome (c : IPText) (hrt : c.RT) (b : Bytes) (hb : b.length = 4 ∨ b.length = 16) :
    (c.parse (ipString c b)).isSome = true := by
  rcases hb with h4 | h16
  · rw [parse_ipString c hrt b (Or.inl h4)]; rfl
  · cases hm : isV4Mapped b
    · rw [parse_ipString c hrt b (Or.inr ⟨h16, hm⟩)]; rfl
    · have : ¬ b.length = 4 := by omega
      have h12 : (b.drop 12).length = 4 := by simp; omega
      simp [ipString, this, hm, hrt.parse4 _ h12]

theorem sameDest_rebuilt (c : IPText) (hrt : c.RT) (host : Text) :
    sameDest c host (rebuiltHost c host) = true := by
  unfold rebuiltHost sameDest
  cases hpar : c.parse host with
  | none => simp
  | some ip =>
    have := parse_ipString c hrt ip (hrt.shape host ip hpar)
    simp [this]

/-- What `parseUDPHeader` returns can be handed to `buildUDPHeader`. -/
theorem parse_ok_wf (c : IPText) (hrt : c.RT) (data : Bytes) (d : UDest)
    (h : parseUDPHeader c data = .ok d) :
    d.port < 65536 ∧ (c.parse d.host = none → d.host.length ≤ 255) := by
  have hs := parseUDP_spec c data
  rw [h] at hs
  simp only [UOut.res, udpExpect] at hs
  cases hd : decodeUDP data with
  | drop => simp [hd] at hs
  | accept a port payload =>
    simp only [hd, Option.some.injEq] at hs
    obtain ⟨hwf, hport, _⟩ := decodeUDP_accept data a port payload hd
    subst hs
    refine ⟨hport, ?_⟩
    intro hnone
    cases a with
    | ip4 b =>
      have hb : b.length = 4 := by simpa [Addr.WF] using hwf
      have := parse_ipString_isSome c hrt b (Or.inl hb)
      simp [hostText] at hnone
      simp [hnone] at this
    | ip6 b =>
      have hb : b.length = 16 := by simpa [Addr.WF] using hwf
      have := parse_ipString_isSome c hrt b (Or.inr hb)
      simp [hostText] at hnone
      simp [hnone] at this
    | dom b =>
      simpa [Addr.WF, hostText] using hwf

theorem udp_holds (c : IPText) (hrt : c.RT) (data : Bytes) : holdsUdp c data (udpObs c data) = true := by
  unfold holdsUdp udpObs
  cases h : parseUDPHeader c data with
  | fail e =>
    have hs := parseUDP_spec c data
    rw [h] at hs
    simp [← hs]
  | ok d =>
    have hs := parseUDP_spec c data
    rw [h] at hs
    obtain ⟨hp, hh⟩ := parse_ok_wf c hrt data d h
    have hb := build_parse c hrt d.host d.port d.payload hp hh
    have hs2 := parseUDP_spec c (buildUDPHeader c d.host d.port d.payload)
    simp only [← hs, ← hs2, decide_true, Bool.true_and]
    rw [hb]
    simp [sameDest_rebuilt c hrt d.host]

theorem build_holds (c : IPText) (hrt : c.RT) (host : Text) (port : Nat) (payload : Bytes) :
    holdsBuild c host port payload (buildObs c host port payload) = true := by
  unfold holdsBuild buildObs
  have hs := parseUDP_spec c (buildUDPHeader c host port payload)
  simp only [← hs, decide_true, Bool.true_and]
  cases hwf : BuildWF host port with
  | false => simp
  | true =>
    have hw : host.length ≤ 255 ∧ port < 65536 := by simpa [BuildWF] using hwf
    rw [build_parse c hrt host port payload hw.2 (fun _ => hw.1)]
    simp [sameDest_rebuilt c hrt host]

/-! ### The reference decoders invert the grammar encoders -/

theorem take_append_len {α : Type} (a b : List α) (n : Nat) (h : a.length = n) : (a ++ b).take n = a := by
  subst h; simp

theorem drop_append_len {α : Type} (a b : List α) (n : Nat) (h : a.length = n) : (a ++ b).drop n = b := by
  subst h; simp

theorem decAddr_enc (a : Addr) (hwf : a.WF = true) (rest : Bytes) :
    decAddr a.atyp (a.enc ++ rest) = .ok a rest := by
  cases a with
  | ip4 b =>
    have hb : b.length = 4 := by simpa [Addr.WF] using hwf
    simp [decAddr, Addr.atyp, Addr.enc, hb, take_append_len b rest 4 hb, drop_append_len b rest 4 hb]
  | ip6 b =>
    have hb : b.length = 16 := by simpa [Addr.WF] using hwf
    simp [decAddr, Addr.atyp, Addr.enc, hb, take_append_len b rest 16 hb, drop_append_len b rest 16 hb]
  | dom b =>
    have hb : b.length ≤ 255 := by simpa [Addr.WF] using hwf
    have ht : (u8 b.length).toNat = b.length := toNat_u8 _ (by omega)
    simp [decAddr, Addr.atyp, Addr.enc, ht]

theorem encPort_decode (p : Nat) (hp : p < 65536) (rest : Bytes) :
    ∃ p1 p2 : Byte, encPort p ++ rest = p1 :: p2 :: rest ∧ p1.toNat * 256 + p2.toNat = p := by
  refine ⟨u8 (p / 256), u8 (p % 256), rfl, ?_⟩
  rw [toNat_u8 _ (by omega), toNat_u8 _ (by omega)]
  omega

theorem decodeReq_enc (pf : Profile) (off : Nat) (pre : Bytes) (r : Request) (hwf : r.WF = true)
    (hc : pf.cmds.contains r.cmd = true) (rest : Bytes) :
    decodeReq pf off pre (r.enc ++ rest) = .accept r.cmd r.addr r.port (off + r.enc.length) pre := by
  have hw : r.cmd < 256 ∧ r.addr.WF = true ∧ r.port < 65536 := by
    simpa [Request.WF, and_assoc] using hwf
  obtain ⟨p1, p2, hpe, hpv⟩ := encPort_decode r.port hw.2.2 rest
  have hcmd : (u8 r.cmd).toNat = r.cmd := toNat_u8 _ hw.1
  have hat : (u8 r.addr.atyp).toNat = r.addr.atyp := toNat_u8 _ (by cases r.addr <;> simp [Addr.atyp])
  have henc : r.enc ++ rest = 5 :: u8 r.cmd :: r.rsv :: u8 r.addr.atyp :: (r.addr.enc ++ (encPort r.port ++ rest)) := by
    simp [Request.enc]
  rw [henc]
  simp only [decodeReq, hcmd, hat, hc, show (5 : Byte).toNat = 5 from rfl, ne_eq, not_true_eq_false, if_false,
    decAddr_enc r.addr hw.2.1, hpe, hpv]
  simp [Request.enc, encPort]
  omega

theorem decodeUDP_enc (d : Datagram) (hwf : d.WF = true) :
    decodeUDP d.enc = .accept d.addr d.port d.payload := by
  have hw : d.addr.WF = true ∧ d.port < 65536 := by simpa [Datagram.WF] using hwf
  obtain ⟨p1, p2, hpe, hpv⟩ := encPort_decode d.port hw.2 d.payload
  have hat : (u8 d.addr.atyp).toNat = d.addr.atyp := toNat_u8 _ (by cases d.addr <;> simp [Addr.atyp])
  have henc : d.enc = d.rsv1 :: d.rsv2 :: 0 :: u8 d.addr.atyp :: (d.addr.enc ++ (encPort d.port ++ d.payload)) := by
    simp [Datagram.enc]
  rw [henc]
  simp [decodeUDP, hat, decAddr_enc d.addr hw.1, hpe, hpv]

theorem decodeNeg_enc (pf : Profile) (hpf : pf.creds = none) (methods : Bytes) (hm1 : 0 < methods.length)
    (hm2 : methods.length ≤ 255) (hm : methods.contains (u8 pf.method) = true) (r : Request)
    (hwf : r.WF = true) (hc : pf.cmds.contains r.cmd = true) (rest : Bytes) :
    decodeNeg pf (encGreeting methods ++ (r.enc ++ rest)) =
      .accept r.cmd r.addr r.port ((encGreeting methods).length + r.enc.length) [5, u8 pf.method] := by
  have hn : (u8 methods.length).toNat = methods.length := toNat_u8 _ (by omega)
  have hn0 : ¬ methods.length = 0 := by omega
  simp only [encGreeting, List.cons_append, decodeNeg, hn, hn0, show (5 : Byte).toNat = 5 from rfl, ne_eq,
    not_true_eq_false, if_false, List.length_append, take_append_len methods _ _ rfl,
    drop_append_len methods _ _ rfl, hm, hpf, List.length_cons]
  have hlt : ¬ (methods.length + (r.enc.length + rest.length) < methods.length) := by omega
  simp only [hlt, if_false, decodeReq_enc pf _ _ r hwf hc rest]
  congr 1
  omega

theorem decodeNeg_enc_auth (pf : Profile) (user pass : Text) (hpf : pf.creds = some (user, pass))
    (hu : user.length ≤ 255) (hpl : pass.length ≤ 255)
    (methods : Bytes) (hm1 : 0 < methods.length)
    (hm2 : methods.length ≤ 255) (hm : methods.contains (u8 pf.method) = true) (r : Request)
    (hwf : r.WF = true) (hc : pf.cmds.contains r.cmd = true) (rest : Bytes) :
    decodeNeg pf (encGreeting methods ++ (encAuth user pass ++ (r.enc ++ rest))) =
      .accept r.cmd r.addr r.port ((encGreeting methods).length + (encAuth user pass).length + r.enc.length)
        [5, u8 pf.method, 1, 0] := by
  have hn : (u8 methods.length).toNat = methods.length := toNat_u8 _ (by omega)
  have hn0 : ¬ methods.length = 0 := by omega
  have hul : (u8 user.length).toNat = user.length := toNat_u8 _ (by omega)
  have hpll : (u8 pass.length).toNat = pass.length := toNat_u8 _ (by omega)
  simp only [encGreeting, List.cons_append, decodeNeg, hn, hn0, show (5 : Byte).toNat = 5 from rfl, ne_eq,
    not_true_eq_false, if_false, List.length_append, take_append_len methods _ _ rfl,
    drop_append_len methods _ _ rfl, hm, hpf, List.length_cons]
  have hlt : ¬ (methods.length + ((encAuth user pass).length + (r.enc.length + rest.length)) < methods.length) := by
    omega
  simp only [hlt, if_false]
  have hauth : encAuth user pass ++ (r.enc ++ rest) =
      1 :: u8 user.length :: (user ++ (u8 pass.length :: (pass ++ (r.enc ++ rest)))) := by
    simp [encAuth]
  rw [hauth]
  have hg : byteAt (user ++ (u8 pass.length :: (pass ++ (r.enc ++ rest)))) user.length = pass.length := by
    simp [byteAt, List.getD_eq_getElem?_getD, hpll]
  have hd : List.drop (user.length + 1) (user ++ (u8 pass.length :: (pass ++ (r.enc ++ rest)))) =
      pass ++ (r.enc ++ rest) := by
    rw [← List.drop_drop, drop_append_len user _ _ rfl]; rfl
  simp only [decodeAuth, hul, show (1 : Byte).toNat = 1 from rfl, ne_eq, not_true_eq_false, if_false, hg, hd,
    take_append_len user _ _ rfl, take_append_len pass _ _ rfl, drop_append_len pass _ _ rfl, and_self, if_true,
    List.length_append, List.length_cons]
  have c1 : ¬ (user.length + (pass.length + (r.enc.length + rest.length) + 1) < user.length + 1) := by omega
  have c2 : ¬ (pass.length + (r.enc.length + rest.length) < pass.length) := by omega
  simp only [c1, c2, if_false, decodeReq_enc pf _ _ r hwf hc rest]
  simp [encAuth]
  omega

/-! ### handleConnection -/

theorem runFlat_suffix {α : Type} (p : P α) (bs : Bytes) : ∃ k, (p.runFlat bs).2 = bs.drop k := by
  induction p generalizing bs with
  | done a => exact ⟨0, by simp [P.runFlat]⟩
  | read n e k ih =>
    simp only [P.runFlat]
    by_cases hn : n ≤ bs.length
    · simp only [hn, if_true]
      obtain ⟨j, hj⟩ := ih (bs.take n) (bs.drop n)
      exact ⟨n + j, by rw [hj, List.drop_drop]⟩
    · exact ⟨bs.length, by simp [hn]⟩

theorem drop_of_suffix_length (bs : Bytes) (k used : Nat) (hu : used ≤ bs.length)
    (h : bs.length - (bs.drop k).length = used) : bs.drop k = bs.drop used := by
  simp only [List.length_drop] at h
  by_cases hk : k ≤ bs.length
  · have : k = used := by omega
    rw [this]
  · have h1 : used = bs.length := by omega
    rw [h1, List.drop_length, List.drop_eq_nil_of_le (by omega)]

theorem u8_mod (n : Nat) : u8 (n % 256) = u8 n := by
  apply UInt8.toNat_inj.mp
  simp [u8, UInt8.toNat_ofNat']

theorem putBe16_eq_encPort (p : Nat) : putBe16 p = encPort p := by
  simp [putBe16, encPort, u8_mod]

theorem reply_success : isReply 0 sendSuccess = true := by decide

theorem virtualDNS_text : asciiText socks5.VirtualDNSIP = [49, 48, 46, 48, 46, 48, 46, 49] := by decide

theorem to4_length (ip b : Bytes) (h : to4 ip = some b) : b.length = 4 := by
  unfold to4 at h
  by_cases h4 : ip.length = 4
  · simp [h4] at h; subst h; exact h4
  · by_cases hm : isV4Mapped ip = true
    · simp only [h4, hm, if_false, if_true, Option.some.injEq] at h
      subst h
      have : ip.length = 16 := by
        simp only [isV4Mapped, Bool.and_eq_true, beq_iff_eq] at hm
        exact hm.1.1.1
      simp [this]
    · simp [h4, hm] at h

theorem bindReply_ok (ip : Bytes) (port : Nat) : bindReply ip port (sendSuccessWithBind ip port) = true := by
  unfold bindReply sendSuccessWithBind
  rw [putBe16_eq_encPort]
  cases h : to4 ip with
  | none => simp [isReply, encPort, socks5.Version, socks5.RepSuccess, socks5.AddrIPv4, u8]
  | some b =>
    have hb := to4_length ip b h
    match b, hb with
    | [b1, b2, b3, b4], _ =>
      simp [isReply, encPort, socks5.Version, socks5.RepSuccess, socks5.AddrIPv4, u8]

theorem conn_holds (c : IPText) (cfg : ConnCfg) (chunks : List Bytes) (tail : Tail) :
    holdsConn c cfg chunks.flatten (handleConnection c cfg ⟨chunks, tail⟩) = true := by
  have hf := P.runSrc_flat (handshakeP c) ⟨chunks, tail⟩
  have hh := handshake_flat_holds c chunks.flatten
  obtain ⟨k, hk⟩ := runFlat_suffix (handshakeP c) chunks.flatten
  have hf1 : ((handshakeP c).runSrc ⟨chunks, tail⟩).1 = ((handshakeP c).runFlat chunks.flatten).1 := hf.1
  have hf2 : ((handshakeP c).runSrc ⟨chunks, tail⟩).2.flat = ((handshakeP c).runFlat chunks.flatten).2 := hf.2
  unfold handleConnection handshake
  rw [hf1, hf2]
  unfold holdsHs holdsNeg hsObs at hh
  simp only at hh
  generalize (handshakeP c).runFlat chunks.flatten = res at hh hk
  obtain ⟨⟨out, written⟩, left⟩ := res
  simp only at hh hk ⊢
  unfold holdsConn
  cases hd : decodeNeg listenerProfile chunks.flatten with
  | reject why used pre =>
    rw [hd] at hh
    simp only [agrees, Bool.and_eq_true, decide_eq_true_eq] at hh
    obtain ⟨⟨⟨h1, _⟩, h3⟩, h4⟩ := hh
    cases out with
    | ok r => simp [HsOut.res] at h1
    | fail e => simp [h3, h4]
  | accept cmd a port used pre =>
    rw [hd] at hh
    simp only [agrees, Bool.and_eq_true, decide_eq_true_eq, beq_iff_eq] at hh
    obtain ⟨⟨h1, h2⟩, h3⟩ := hh
    obtain ⟨methods, rsv, rest, hbs, _, _, _, _, hcmd, hused, _⟩ :=
      decodeNeg_accept listenerProfile rfl _ _ _ _ _ _ hd
    have hule : used ≤ chunks.flatten.length := by
      rw [hused]
      conv => rhs; rw [hbs]
      simp only [List.length_append]
      omega
    have hleft : left = chunks.flatten.drop used := by
      rw [hk]
      exact drop_of_suffix_length _ _ _ hule (by rw [← hk]; exact h3)
    have hc13 : cmd = 1 ∨ cmd = 3 := by simpa [listenerProfile] using hcmd
    cases out with
    | fail e => simp [HsOut.res] at h1
    | ok r =>
      simp only [HsOut.res, Option.some.injEq] at h1
      subst h1 h2 hleft
      simp only [hsExpect, socks5.CmdConnect, socks5.CmdUDPAssoc]
      rcases hc13 with hc | hc
      · subst hc
        simp only [if_true, handleConnect, virtualDNS_text]
        by_cases hdot : hostText c a = [49, 48, 46, 48, 46, 48, 46, 49] ∧ port = 853
        · simp [hdot, dotIntercept, isPrefixOf_self_append, drop_self_append, reply_failure]
        · have hdot' : dotIntercept (hostText c a) port = false := by
            simp only [dotIntercept, Bool.and_eq_false_iff, beq_eq_false_iff_ne]
            by_cases hh1 : hostText c a = [49, 48, 46, 48, 46, 48, 46, 49]
            · exact Or.inr (fun hp => hdot ⟨hh1, hp⟩)
            · exact Or.inl hh1
          cases ht : cfg.hasTunnel <;> cases hok : cfg.tunnelOk <;>
            simp [hdot, hdot', ht, hok, isPrefixOf_self_append, drop_self_append, reply_failure, reply_success]
      · subst hc
        simp only [show ¬ (3 = 1) by decide, if_false, if_true, handleUDPAssociate]
        cases hr : cfg.hasRelay <;> cases hok : cfg.relayOk <;>
          simp [hr, hok, isPrefixOf_self_append, drop_self_append, reply_failure, reply_cmd, bindReply_ok]

/-! ### The relay: every schedule forwards every payload intact -/

def Job.isOwned : Job → Bool
  | .owned _ => true
  | .alias .. => false

/-- What is still owed to the tunnels in state `s`, with what was already sent. -/
def Relay.pending (c : IPText) (s : Relay) : List UDest :=
  s.sent ++ (s.jobs.flatMap (fun j => (runJob c s.buf j).toList) ++
    s.queue.flatMap (fun d => (udpExpect c d).toList))

theorem runJob_owned (c : IPText) (buf data : Bytes) : runJob c buf (.owned data) = udpExpect c data := by
  have h := parseUDP_spec c data
  unfold runJob
  cases hp : parseUDPHeader c data <;> simp [hp, UOut.res] at h ⊢ <;> exact h

theorem runJob_buf_indep (c : IPText) (b1 b2 : Bytes) (j : Job) (h : j.isOwned = true) :
    runJob c b1 j = runJob c b2 j := by
  cases j with
  | owned d => rw [runJob_owned, runJob_owned]
  | alias => simp [Job.isOwned] at h

theorem flatMap_jobs_buf_indep (c : IPText) (b1 b2 : Bytes) (js : List Job)
    (h : ∀ j ∈ js, j.isOwned = true) :
    js.flatMap (fun j => (runJob c b1 j).toList) = js.flatMap (fun j => (runJob c b2 j).toList) := by
  induction js with
  | nil => rfl
  | cons j js ih =>
    simp only [List.flatMap_cons]
    rw [runJob_buf_indep c b1 b2 j (h j (List.mem_cons_self ..)),
      ih (fun x hx => h x (List.mem_cons_of_mem _ hx))]

theorem relayExpect_flatMap (c : IPText) (ds : List Bytes) :
    relayExpect c ds = ds.flatMap (fun d => (udpExpect c d).toList) := by
  unfold relayExpect
  induction ds with
  | nil => rfl
  | cons d ds ih =>
    simp only [List.filterMap_cons, List.flatMap_cons, ← ih]
    cases udpExpect c d <;> simp

def Relay.Inv (c : IPText) (ds : List Bytes) (s : Relay) : Prop :=
  (∀ j ∈ s.jobs, j.isOwned = true) ∧ ∀ a, (s.pending c).count a = (relayExpect c ds).count a

theorem Relay.inv_init (c : IPText) (ds : List Bytes) : (Relay.init ds).Inv c ds := by
  refine ⟨by simp [Relay.init], fun a => ?_⟩
  simp [Relay.pending, Relay.init, relayExpect_flatMap]

theorem Relay.inv_step (c : IPText) (ds : List Bytes) (s : Relay) (st : RStep) (h : s.Inv c ds) :
    (s.step c .copyAtRead st).Inv c ds := by
  obtain ⟨hown, hcnt⟩ := h
  cases st with
  | read =>
    unfold Relay.step
    cases hq : s.queue with
    | nil => simpa [hq] using ⟨hown, hcnt⟩
    | cons d q =>
      have htk : (overwrite s.buf d).take d.length = d := by simp [overwrite]
      simp only [spawn, htk, Option.toList_some]
      refine ⟨?_, fun a => ?_⟩
      · intro j hj
        rcases List.mem_append.mp hj with hj | hj
        · exact hown j hj
        · simp at hj; subst hj; rfl
      · rw [← hcnt a]
        simp only [Relay.pending, hq, List.flatMap_append, List.flatMap_cons, List.flatMap_nil, List.append_nil,
          runJob_owned, flatMap_jobs_buf_indep c (overwrite s.buf d) s.buf s.jobs hown, List.count_append]
        omega
  | run i =>
    unfold Relay.step
    cases hj : s.jobs[i]? with
    | none => simpa [hj] using ⟨hown, hcnt⟩
    | some j =>
      obtain ⟨hi, hji⟩ := List.getElem?_eq_some_iff.mp hj
      have hsplit : s.jobs = s.jobs.take i ++ j :: s.jobs.drop (i + 1) := by
        rw [← hji, ← List.drop_eq_getElem_cons hi, List.take_append_drop]
      simp only [hj]
      refine ⟨?_, fun a => ?_⟩
      · intro x hx
        rw [List.eraseIdx_eq_take_drop_succ] at hx
        apply hown x
        rw [hsplit]
        rcases List.mem_append.mp hx with hx | hx
        · exact List.mem_append_left _ hx
        · exact List.mem_append_right _ (List.mem_cons_of_mem _ hx)
      · rw [← hcnt a]
        simp only [Relay.pending, List.eraseIdx_eq_take_drop_succ]
        conv => rhs; rw [hsplit]
        simp only [List.flatMap_append, List.flatMap_cons, List.count_append]
        omega

theorem Relay.inv_exec (c : IPText) (ds : List Bytes) (sch : List RStep) (s : Relay) (h : s.Inv c ds) :
    (s.exec c .copyAtRead sch).Inv c ds := by
  induction sch generalizing s with
  | nil => exact h
  | cons st sch ih => exact ih _ (Relay.inv_step c ds s st h)

theorem relay_holds (c : IPText) (ds : List Bytes) (sch : List RStep)
    (hq : ((Relay.init ds).exec c .copyAtRead sch).quiescent = true) :
    holdsRelay c ds ((Relay.init ds).exec c .copyAtRead sch).sent = true := by
  have hinv := Relay.inv_exec c ds sch _ (Relay.inv_init c ds)
  generalize (Relay.init ds).exec c .copyAtRead sch = s at hq hinv
  obtain ⟨_, hcnt⟩ := hinv
  simp only [Relay.quiescent, Bool.and_eq_true, List.isEmpty_iff] at hq
  unfold holdsRelay
  rw [List.isPerm_iff, List.perm_iff_count]
  intro a
  rw [← hcnt a]
  simp [Relay.pending, hq.1, hq.2]

/-- Every schedule that reads all datagrams and runs all goroutines exists: read everything, then
run the goroutines front to back. -/
def fifoSchedule (n : Nat) : List RStep := List.replicate n .read ++ List.replicate n (.run 0)

/-! ### The relay, both directions -/

theorem expect_wf (c : IPText) (hrt : c.RT) (data : Bytes) (d : UDest) (h : udpExpect c data = some d) :
    d.port < 65536 ∧ (c.parse d.host = none → d.host.length ≤ 255) := by
  have hs := parseUDP_spec c data
  rw [h] at hs
  cases hp : parseUDPHeader c data with
  | fail e => simp [hp, UOut.res] at hs
  | ok d' =>
    simp only [hp, UOut.res, Option.some.injEq] at hs
    subst hs
    exact parse_ok_wf c hrt data d' hp

theorem reply_expect (c : IPText) (hrt : c.RT) (d : UDest) (resp : Bytes) (hp : d.port < 65536)
    (hh : c.parse d.host = none → d.host.length ≤ 255) :
    udpExpect c (replyDatagram c d resp) = some ⟨rebuiltHost c d.host, d.port, resp⟩ := by
  rw [← parseUDP_spec, replyDatagram, build_parse c hrt d.host d.port resp hp hh]
  rfl

theorem relayIO_holds (c : IPText) (hrt : c.RT) (dns : Bool) (answer : Bool → Bytes → Bytes) (ds : List Bytes)
    (sch : List RStep) (hq : ((Relay.init ds).exec c .copyAtRead sch).quiescent = true) :
    holdsRelayIO c dns answer ds
      (relayIO c dns answer ((Relay.init ds).exec c .copyAtRead sch).sent) = true := by
  have hperm : ((Relay.init ds).exec c .copyAtRead sch).sent.Perm (relayExpect c ds) :=
    List.isPerm_iff.mp (relay_holds c ds sch hq)
  generalize ((Relay.init ds).exec c .copyAtRead sch).sent = sent at hperm
  unfold holdsRelayIO relayIO
  simp only [Bool.and_eq_true, List.isPerm_iff]
  refine ⟨⟨hperm.filter _, (hperm.filter _).map _⟩, ?_⟩
  have hmap : (sent.map (fun d => replyDatagram c d (answer (isDnsRoute dns d) d.payload))).map (udpExpect c) =
      sent.map (fun d => some (⟨rebuiltHost c d.host, d.port, answer (isDnsRoute dns d) d.payload⟩ : UDest)) := by
    rw [List.map_map]
    apply List.map_congr_left
    intro d hd
    have hmem : d ∈ relayExpect c ds := hperm.mem_iff.mp hd
    obtain ⟨data, _, hdata⟩ := List.mem_filterMap.mp hmem
    obtain ⟨hp, hh⟩ := expect_wf c hrt data d hdata
    exact reply_expect c hrt d _ hp hh
  rw [hmap]
  exact hperm.map _

/-! ### handleSocksConnection -/

theorem ad_reply_failure : isFailureReply (sendReply0 adapter.socksRepServerFailure) = true := by decide

theorem adConn_holds (c : IPText) (cfg : AdCfg) (chunks : List Bytes) (tail : Tail) :
    holdsAdConn cfg chunks.flatten (adConnection c cfg ⟨chunks, tail⟩).1
      (chunks.flatten.length - (adConnection c cfg ⟨chunks, tail⟩).2.flat.length) true = true := by
  have hf := P.runSrc_flat (adHandshakeP c cfg) ⟨chunks, tail⟩
  have hf1 : ((adHandshakeP c cfg).runSrc ⟨chunks, tail⟩).1 = ((adHandshakeP c cfg).runFlat chunks.flatten).1 := hf.1
  have hf2 : ((adHandshakeP c cfg).runSrc ⟨chunks, tail⟩).2.flat =
      ((adHandshakeP c cfg).runFlat chunks.flatten).2 := hf.2
  have hh := adHandshake_flat_holds c cfg chunks.flatten
  unfold holdsAd holdsNeg adObs at hh
  simp only at hh
  unfold holdsAdConn adConnection adNegotiate
  rw [hf1]
  generalize (adHandshakeP c cfg).runFlat chunks.flatten = res at hh hf2
  obtain ⟨⟨out, written⟩, left⟩ := res
  simp only at hh hf2 ⊢
  generalize chunks.flatten.length = L at hh ⊢
  cases hd : decodeNeg (adapterProfile cfg) chunks.flatten with
  | reject why used pre =>
    rw [hd] at hh
    simp only [agrees, Bool.and_eq_true, decide_eq_true_eq] at hh
    obtain ⟨⟨⟨h1, h2⟩, h3⟩, h4⟩ := hh
    cases out with
    | ok r => simp [AdOut.res] at h1
    | fail e => simp [hf2, h2, h3, h4]
  | accept cmd a port used pre =>
    rw [hd] at hh
    simp only [agrees, Bool.and_eq_true, decide_eq_true_eq, beq_iff_eq] at hh
    obtain ⟨⟨h1, h2⟩, h3⟩ := hh
    cases out with
    | fail e => simp [AdOut.res] at h1
    | ok r =>
      subst h2
      simp [hf2, h3, isPrefixOf_self_append, drop_self_append, ad_reply_failure]

end Tunnox.C20
