import TunnoxModel.Spec.C20
import TunnoxModel.Proofs.Src
/-! Helper lemmas for C20. -/
namespace Tunnox.C20
open Gen

/-! ### Read programs depend only on the flat content of the source -/

theorem P.runSrc_flat {α : Type} (p : P α) (s : Src) :
    (p.runSrc s).1 = (p.runFlat s.flat).1 ∧ (p.runSrc s).2.flat = (p.runFlat s.flat).2 := by
  induction p generalizing s with
  | done a => simp [P.runSrc, P.runFlat]
  | read n e k ih =>
    simp only [P.runSrc, P.runFlat]
    rw [readFull_flat]
    by_cases hn : n ≤ s.flat.length
    · simp only [hn, if_true]
      have hok := readFull_flat s n
      rw [if_pos hn] at hok
      have hs := readFull_ok_rest_flat s _ _ _ hok
      have := ih (s.flat.take n) ⟨(readFullChunks s.pending n).2.1, s.tail⟩
      rw [hs.2.1] at this
      exact this
    · simp only [hn, if_false]
      exact ⟨trivial, rfl⟩

/-! ### Small facts -/

theorem isPrefixOf_self_append (w x : Bytes) : w.isPrefixOf (w ++ x) = true := by
  induction w with
  | nil => simp [List.isPrefixOf]
  | cons a w ih => simp [List.isPrefixOf, ih]

theorem drop_self_append (w x : Bytes) : (w ++ x).drop w.length = x := by
  induction w with
  | nil => rfl
  | cons a w ih => simpa using ih

theorem toNat_beq (m : Byte) (k : Nat) (hk : k < 256) : (m.toNat == k) = (m == u8 k) := by
  have h1 : (u8 k).toNat = k := by simp [u8, UInt8.toNat_ofNat']; omega
  by_cases h : m = u8 k
  · subst h; simp [h1]
  · have : m.toNat ≠ k := by
      intro h2; apply h; apply UInt8.toNat_inj.mp; rw [h1]; exact h2
    have h' : (m == u8 k) = false := by simpa using h
    rw [h']; simpa using this
theorem any_toNat_eq (l : Bytes) (k : Nat) (hk : k < 256) :
    l.any (fun m => m.toNat == k) = l.contains (u8 k) := by
  induction l with
  | nil => rfl
  | cons a l ih =>
    rw [List.any_cons, List.contains_cons, ih, toNat_beq a k hk]
    rw [BEq.comm (a := a)]

theorem reply_failure : isFailureReply (sendError socks5.RepFailure) = true := by decide
theorem reply_cmd : isReply 7 (sendError socks5.RepCmdNotSupp) = true := by decide
theorem reply_atyp : isReply 8 (sendError socks5.RepAddrNotSupp) = true := by decide

theorem readPort_flat (w : Bytes) (cmd : Nat) (host : Text) (bs : Bytes) :
    (readPort w cmd host).runFlat bs =
      match bs with
      | p1 :: p2 :: tl => (⟨.ok ⟨cmd, host, p1.toNat * 256 + p2.toNat⟩, w⟩, tl)
      | _ => (⟨.fail .readPort, w⟩, []) := by
  match bs with
  | [] => simp [readPort, P.runFlat]
  | [a] => simp [readPort, P.runFlat]
  | a :: b :: tl => simp [readPort, P.runFlat, be16, byteAt]

theorem request_agrees (c : IPText) (w : Bytes) (off total : Nat) (bs : Bytes)
    (ht : total = off + bs.length) :
    agrees (hsExpect c) (decodeReq listenerProfile off w bs)
      ((request c w).runFlat bs).1.out.res ((request c w).runFlat bs).1.written
      (total - ((request c w).runFlat bs).2.length) = true := by
  match bs, ht with
  | [], ht => simp [request, P.runFlat, decodeReq, agrees, HsOut.res, replyFor, ht]
  | [_], ht => simp [request, P.runFlat, decodeReq, agrees, HsOut.res, replyFor, ht]
  | [_, _], ht => simp [request, P.runFlat, decodeReq, agrees, HsOut.res, replyFor, ht]
  | [_, _, _], ht => simp [request, P.runFlat, decodeReq, agrees, HsOut.res, replyFor, ht]
  | ver :: cmd :: rsv :: atyp :: rest, ht =>
    have h4 : 4 ≤ (ver :: cmd :: rsv :: atyp :: rest).length := by simp
    simp only [request, P.runFlat, h4, if_true, decodeReq, List.take, List.drop, byteAt, List.getD_cons_zero,
      List.getD_cons_succ, socks5.Version, socks5.CmdConnect, socks5.CmdUDPAssoc, socks5.AddrIPv4,
      socks5.AddrDomain, socks5.AddrIPv6]
    have hcons : (ver :: cmd :: rsv :: atyp :: rest).length = rest.length + 4 := by simp
    rw [hcons] at ht
    rw [hcons]
    by_cases hv' : ver.toNat ≠ 5
    · simp [hv', P.runFlat, agrees, HsOut.res, replyFor, reply_failure, isPrefixOf_self_append,
        drop_self_append, ht] <;> omega
    have hv : ver.toNat = 5 := by omega
    by_cases hc' : cmd.toNat ≠ 1 ∧ cmd.toNat ≠ 3
    · simp [hv, hc', listenerProfile, P.runFlat, agrees, HsOut.res, replyFor, reply_cmd, isPrefixOf_self_append,
        drop_self_append, ht] <;> omega
    have hc : cmd.toNat = 1 ∨ cmd.toNat = 3 := by omega
    have hc1 : ¬ (cmd.toNat ≠ 1 ∧ cmd.toNat ≠ 3) := by omega
    have hc2 : listenerProfile.cmds.contains cmd.toNat = true := by
      rcases hc with h | h <;> simp [listenerProfile, h]
    simp only [hv, hc1, hc2, ne_eq, not_true_eq_false, if_false, not_false_eq_true]
    by_cases ha1 : atyp.toNat = 1
    · simp only [ha1, if_true, decAddr, P.runFlat]
      by_cases hl : 4 ≤ rest.length
      · have hrl : (rest.drop 4).length = rest.length - 4 := by simp
        have htl : (rest.take 4).length = 4 := by simp; omega
        simp only [hl, if_true, readPort_flat]
        generalize rest.drop 4 = r at hrl
        match r, hrl with
        | [], hrl => simp [agrees, HsOut.res, replyFor, ht]
        | [_], hrl => simp [agrees, HsOut.res, replyFor, ht]
        | p1 :: p2 :: tl, hrl =>
          simp [agrees, HsOut.res, hsExpect, hostText, Addr.enc, ht] at hrl ⊢
          omega
      · simp [hl, agrees, HsOut.res, replyFor, ht]
    by_cases ha4 : atyp.toNat = 4
    · simp only [ha4, if_true, decAddr, P.runFlat, show ¬ (4 = 1) by decide, show ¬ (4 = 3) by decide, if_false]
      by_cases hl : 16 ≤ rest.length
      · have hrl : (rest.drop 16).length = rest.length - 16 := by simp
        have htl : (rest.take 16).length = 16 := by simp; omega
        simp only [hl, if_true, readPort_flat]
        generalize rest.drop 16 = r at hrl
        match r, hrl with
        | [], hrl => simp [agrees, HsOut.res, replyFor, ht]
        | [_], hrl => simp [agrees, HsOut.res, replyFor, ht]
        | p1 :: p2 :: tl, hrl =>
          simp [agrees, HsOut.res, hsExpect, hostText, Addr.enc, ht] at hrl ⊢
          omega
      · simp [hl, agrees, HsOut.res, replyFor, ht]
    by_cases ha3 : atyp.toNat = 3
    · simp only [ha3, if_true, decAddr, P.runFlat, show ¬ (3 = 1) by decide, show ¬ (3 = 4) by decide, if_false]
      match rest, ht with
      | [], ht => simp [agrees, HsOut.res, replyFor, ht]
      | l :: r0, ht =>
        simp only [List.length_cons, Nat.le_add_left, if_true, List.take, List.drop, List.getD_cons_zero, P.runFlat]
        by_cases hl : l.toNat ≤ r0.length
        · have hrl : (r0.drop l.toNat).length = r0.length - l.toNat := by simp
          have htl : (r0.take l.toNat).length = l.toNat := by simp; omega
          simp only [hl, if_true, readPort_flat]
          generalize r0.drop l.toNat = r at hrl
          match r, hrl with
          | [], hrl => simp [agrees, HsOut.res, replyFor, ht]
          | [_], hrl => simp [agrees, HsOut.res, replyFor, ht]
          | p1 :: p2 :: tl, hrl =>
            simp [agrees, HsOut.res, hsExpect, hostText, Addr.enc, ht] at hrl ⊢
            omega
        · simp [hl, agrees, HsOut.res, replyFor, ht]
    simp [ha1, ha3, ha4, decAddr, P.runFlat, agrees, HsOut.res, replyFor, reply_atyp, isPrefixOf_self_append,
      drop_self_append, ht] <;> omega

/-- `Listener.Handshake` on a flat byte string satisfies the property. -/
theorem handshake_flat_holds (c : IPText) (bs : Bytes) :
    holdsHs c bs (hsObs bs ((handshakeP c).runFlat bs).1 ((handshakeP c).runFlat bs).2.length) = true := by
  unfold holdsHs holdsNeg hsObs
  match bs with
  | [] => simp [handshakeP, P.runFlat, decodeNeg, agrees, HsOut.res, replyFor]
  | [_] => simp [handshakeP, P.runFlat, decodeNeg, agrees, HsOut.res, replyFor]
  | ver :: nm :: rest =>
    have h2 : 2 ≤ (ver :: nm :: rest).length := by simp
    have hcons : (ver :: nm :: rest).length = rest.length + 2 := by simp
    simp only [handshakeP, P.runFlat, h2, if_true, decodeNeg, List.take, List.drop, byteAt, List.getD_cons_zero,
      List.getD_cons_succ, socks5.Version, socks5.AuthNone, socks5.AuthNoMatch]
    rw [hcons]
    by_cases hv : ver.toNat ≠ 5
    · simp [hv, P.runFlat, agrees, HsOut.res, replyFor]
    by_cases hn : nm.toNat = 0
    · simp [hv, hn, P.runFlat, agrees, HsOut.res, replyFor]
    by_cases hl : rest.length < nm.toNat
    · have hl' : ¬ nm.toNat ≤ rest.length := by omega
      simp [hv, hn, hl, hl', P.runFlat, agrees, HsOut.res, replyFor]
    have hl' : nm.toNat ≤ rest.length := by omega
    have hany := any_toNat_eq (rest.take nm.toNat) 0 (by decide)
    simp only [hv, hn, hl, hl', if_false, if_true, P.runFlat, hany, listenerProfile]
    by_cases hm : (rest.take nm.toNat).contains (u8 0) = true
    · simp only [hm, not_true_eq_false, if_false, if_true]
      have hreq := request_agrees c [u8 5, u8 0] (2 + nm.toNat) (rest.length + 2) (rest.drop nm.toNat)
        (by simp; omega)
      exact hreq
    · simp only [hm, not_false_eq_true, if_true, Bool.false_eq_true, if_false, P.runFlat]
      simp [agrees, HsOut.res, replyFor, u8]
      omega

/-! ### The adapter -/

theorem isPrefixOf_self (w : Bytes) : w.isPrefixOf w = true := by
  have := isPrefixOf_self_append w []
  simpa using this

theorem ad_reply_cmd : isReply 7 (sendReply0 adapter.socksRepCommandNotSupported) = true := by decide
theorem ad_reply_atyp : isReply 8 (sendReply0 adapter.socksRepAddrTypeNotSupported) = true := by decide

theorem adPort_flat (w : Bytes) (host : Text) (bs : Bytes) :
    (adPort w host).runFlat bs =
      match bs with
      | p1 :: p2 :: tl => (⟨.ok (host ++ [58] ++ decText (p1.toNat * 256 + p2.toNat)), w⟩, tl)
      | _ => (⟨.fail .readPort, w⟩, []) := by
  match bs with
  | [] => simp [adPort, P.runFlat]
  | [a] => simp [adPort, P.runFlat]
  | a :: b :: tl => simp [adPort, P.runFlat, be16, byteAt]

theorem adRequest_agrees (c : IPText) (pf : Profile) (hpf : pf.cmds = [1]) (w : Bytes) (off total : Nat) (bs : Bytes)
    (ht : total = off + bs.length) :
    agrees (adExpect c) (decodeReq pf off w bs)
      ((adRequest c w).runFlat bs).1.out.res ((adRequest c w).runFlat bs).1.written
      (total - ((adRequest c w).runFlat bs).2.length) = true := by
  match bs, ht with
  | [], ht => simp [adRequest, P.runFlat, decodeReq, agrees, AdOut.res, replyFor, ht]
  | [_], ht => simp [adRequest, P.runFlat, decodeReq, agrees, AdOut.res, replyFor, ht]
  | [_, _], ht => simp [adRequest, P.runFlat, decodeReq, agrees, AdOut.res, replyFor, ht]
  | [_, _, _], ht => simp [adRequest, P.runFlat, decodeReq, agrees, AdOut.res, replyFor, ht]
  | ver :: cmd :: rsv :: atyp :: rest, ht =>
    have h4 : 4 ≤ (ver :: cmd :: rsv :: atyp :: rest).length := by simp
    simp only [adRequest, P.runFlat, h4, if_true, decodeReq, List.take, List.drop, byteAt, List.getD_cons_zero,
      List.getD_cons_succ, adapter.socks5Version, adapter.socksCmdConnect, adapter.socksAddrTypeIPv4,
      adapter.socksAddrTypeDomain, adapter.socksAddrTypeIPv6]
    have hcons : (ver :: cmd :: rsv :: atyp :: rest).length = rest.length + 4 := by simp
    rw [hcons] at ht
    rw [hcons]
    by_cases hv' : ver.toNat ≠ 5
    · simp [hv', P.runFlat, agrees, AdOut.res, replyFor, isPrefixOf_self, ht] <;> omega
    have hv : ver.toNat = 5 := by omega
    by_cases hc' : cmd.toNat ≠ 1
    · simp [hv, hc', hpf, P.runFlat, agrees, AdOut.res, replyFor, ad_reply_cmd, isPrefixOf_self_append,
        drop_self_append, ht] <;> omega
    have hc : cmd.toNat = 1 := by omega
    have hc1 : ¬ (cmd.toNat ≠ 1) := by omega
    have hc2 : pf.cmds.contains cmd.toNat = true := by simp [hpf, hc]
    simp only [hv, hc1, hc2, ne_eq, not_true_eq_false, if_false, not_false_eq_true]
    by_cases ha1 : atyp.toNat = 1
    · simp only [ha1, if_true, decAddr, P.runFlat]
      by_cases hl : 4 ≤ rest.length
      · have hrl : (rest.drop 4).length = rest.length - 4 := by simp
        have htl : (rest.take 4).length = 4 := by simp; omega
        simp only [hl, if_true, adPort_flat]
        generalize rest.drop 4 = r at hrl
        match r, hrl with
        | [], hrl => simp [agrees, AdOut.res, replyFor, ht]
        | [_], hrl => simp [agrees, AdOut.res, replyFor, ht]
        | p1 :: p2 :: tl, hrl =>
          simp [agrees, AdOut.res, adExpect, hostText, Addr.enc, ht] at hrl ⊢
          omega
      · simp [hl, agrees, AdOut.res, replyFor, ht]
    by_cases ha4 : atyp.toNat = 4
    · simp only [ha4, if_true, decAddr, P.runFlat, show ¬ (4 = 1) by decide, show ¬ (4 = 3) by decide, if_false]
      by_cases hl : 16 ≤ rest.length
      · have hrl : (rest.drop 16).length = rest.length - 16 := by simp
        have htl : (rest.take 16).length = 16 := by simp; omega
        simp only [hl, if_true, adPort_flat]
        generalize rest.drop 16 = r at hrl
        match r, hrl with
        | [], hrl => simp [agrees, AdOut.res, replyFor, ht]
        | [_], hrl => simp [agrees, AdOut.res, replyFor, ht]
        | p1 :: p2 :: tl, hrl =>
          simp [agrees, AdOut.res, adExpect, hostText, Addr.enc, ht] at hrl ⊢
          omega
      · simp [hl, agrees, AdOut.res, replyFor, ht]
    by_cases ha3 : atyp.toNat = 3
    · simp only [ha3, if_true, decAddr, P.runFlat, show ¬ (3 = 1) by decide, show ¬ (3 = 4) by decide, if_false]
      match rest, ht with
      | [], ht => simp [agrees, AdOut.res, replyFor, ht]
      | l :: r0, ht =>
        simp only [List.length_cons, Nat.le_add_left, if_true, List.take, List.drop, List.getD_cons_zero, P.runFlat]
        by_cases hl : l.toNat ≤ r0.length
        · have hrl : (r0.drop l.toNat).length = r0.length - l.toNat := by simp
          have htl : (r0.take l.toNat).length = l.toNat := by simp; omega
          simp only [hl, if_true, adPort_flat]
          generalize r0.drop l.toNat = r at hrl
          match r, hrl with
          | [], hrl => simp [agrees, AdOut.res, replyFor, ht]
          | [_], hrl => simp [agrees, AdOut.res, replyFor, ht]
          | p1 :: p2 :: tl, hrl =>
            simp [agrees, AdOut.res, adExpect, hostText, Addr.enc, ht] at hrl ⊢
            omega
        · simp [hl, agrees, AdOut.res, replyFor, ht]
    simp [ha1, ha3, ha4, decAddr, P.runFlat, agrees, AdOut.res, replyFor, ad_reply_atyp, isPrefixOf_self_append,
      drop_self_append, ht] <;> omega


theorem getD_of_drop (l : Bytes) (n : Nat) (x : Byte) (r : Bytes) (h : l.drop n = x :: r) :
    l.getD n 0 = x ∧ l.drop (n + 1) = r := by
  constructor
  · have : (l.drop n)[0]? = some x := by rw [h]; rfl
    rw [List.getElem?_drop, Nat.add_zero] at this
    simp [List.getD_eq_getElem?_getD, this]
  · have : (l.drop n).drop 1 = r := by rw [h]; rfl
    rw [List.drop_drop] at this
    simpa [Nat.add_comm] using this

theorem adAuth_agrees (c : IPText) (cfg : AdCfg) (pf : Profile) (hpf : pf.cmds = [1]) (w : Bytes)
    (off total : Nat) (bs : Bytes) (ht : total = off + bs.length) :
    agrees (adExpect c) (decodeAuth pf cfg.user cfg.pass off w bs)
      ((adPasswordAuth c cfg w).runFlat bs).1.out.res ((adPasswordAuth c cfg w).runFlat bs).1.written
      (total - ((adPasswordAuth c cfg w).runFlat bs).2.length) = true := by
  match bs, ht with
  | [], ht => simp [adPasswordAuth, P.runFlat, decodeAuth, agrees, AdOut.res, replyFor, ht]
  | [_], ht => simp [adPasswordAuth, P.runFlat, decodeAuth, agrees, AdOut.res, replyFor, ht]
  | ver :: ulen :: rest, ht =>
    have h2 : 2 ≤ (ver :: ulen :: rest).length := by simp
    have hcons : (ver :: ulen :: rest).length = rest.length + 2 := by simp
    simp only [adPasswordAuth, P.runFlat, h2, if_true, decodeAuth, List.take, List.drop, byteAt,
      List.getD_cons_zero, List.getD_cons_succ]
    rw [hcons] at ht
    rw [hcons]
    by_cases hv : ver.toNat ≠ 1
    · simp [hv, P.runFlat, agrees, AdOut.res, replyFor, isPrefixOf_self, ht] <;> omega
    simp only [hv, if_false, P.runFlat]
    by_cases hu : ulen.toNat ≤ rest.length
    · simp only [hu, if_true]
      have hdl : (rest.drop ulen.toNat).length = rest.length - ulen.toNat := by simp
      cases hd : rest.drop ulen.toNat with
      | nil =>
        rw [hd] at hdl
        have : rest.length < ulen.toNat + 1 := by simp at hdl; omega
        simp [this, agrees, AdOut.res, replyFor, ht]
      | cons x r1 =>
        rw [hd] at hdl
        have hlt : ¬ rest.length < ulen.toNat + 1 := by simp at hdl; omega
        obtain ⟨hg, hdr⟩ := getD_of_drop rest ulen.toNat x r1 hd
        simp only [hlt, if_false, List.length_cons, Nat.le_add_left, if_true, List.take, List.drop,
          List.getD_cons_zero, hg, hdr, P.runFlat]
        by_cases hp : x.toNat ≤ r1.length
        · have hp' : ¬ r1.length < x.toNat := by omega
          simp only [hp, hp', if_true, if_false]
          by_cases hcr : rest.take ulen.toNat = cfg.user ∧ r1.take x.toNat = cfg.pass
          · simp only [hcr, and_self, if_true]
            have hreq := adRequest_agrees c pf hpf (w ++ [1, 0]) (off + 2 + ulen.toNat + 1 + x.toNat)
              (total) (r1.drop x.toNat) (by simp at hdl ⊢; omega)
            exact hreq
          · simp only [hcr, if_false, P.runFlat]
            simp [agrees, AdOut.res, replyFor, isPrefixOf_self_append, drop_self_append, ht] at hdl ⊢
            omega
        · have hp' : r1.length < x.toNat := by omega
          simp [hp, hp', agrees, AdOut.res, replyFor, ht]
    · have : rest.length < ulen.toNat + 1 := by omega
      simp [hu, this, agrees, AdOut.res, replyFor, ht]

/-- `handleHandshake` + `handleRequest` on a flat byte string satisfy the property. -/
theorem adHandshake_flat_holds (c : IPText) (cfg : AdCfg) (bs : Bytes) :
    holdsAd c cfg bs
      (adObs bs ((adHandshakeP c cfg).runFlat bs).1 ((adHandshakeP c cfg).runFlat bs).2.length) = true := by
  unfold holdsAd holdsNeg adObs
  match bs with
  | [] => simp [adHandshakeP, P.runFlat, decodeNeg, agrees, AdOut.res, replyFor]
  | [_] => simp [adHandshakeP, P.runFlat, decodeNeg, agrees, AdOut.res, replyFor]
  | ver :: nm :: rest =>
    have h2 : 2 ≤ (ver :: nm :: rest).length := by simp
    have hcons : (ver :: nm :: rest).length = rest.length + 2 := by simp
    simp only [adHandshakeP, P.runFlat, h2, if_true, decodeNeg, List.take, List.drop, byteAt, List.getD_cons_zero,
      List.getD_cons_succ, adapter.socks5Version, adapter.socksAuthNone, adapter.socksAuthNoMatch,
      adapter.socksAuthPassword]
    rw [hcons]
    by_cases hv : ver.toNat ≠ 5
    · simp [hv, P.runFlat, agrees, AdOut.res, replyFor]
    by_cases hl : rest.length < nm.toNat
    · have hl' : ¬ nm.toNat ≤ rest.length := by omega
      have hn : ¬ nm.toNat = 0 := by omega
      simp [hv, hn, hl, hl', P.runFlat, agrees, AdOut.res, replyFor]
    have hl' : nm.toNat ≤ rest.length := by omega
    simp only [hv, hl, hl', if_false, if_true, P.runFlat]
    by_cases hn : nm.toNat = 0
    · cases hauth : cfg.auth <;>
        simp [hn, hauth, P.runFlat, agrees, AdOut.res, replyFor, u8]
    simp only [hn, if_false]
    cases hauth : cfg.auth
    · have hany := any_toNat_eq (rest.take nm.toNat) 0 (by decide)
      have hpf : adapterProfile cfg = ⟨0, none, [1]⟩ := by simp [adapterProfile, hauth]
      simp only [hpf, hany, Bool.false_eq_true, if_false]
      by_cases hm : (rest.take nm.toNat).contains (u8 0) = true
      · simp only [hm, not_true_eq_false, if_false, if_true]
        exact adRequest_agrees c ⟨0, none, [1]⟩ rfl [u8 5, u8 0] (2 + nm.toNat) (rest.length + 2)
          (rest.drop nm.toNat) (by simp; omega)
      · simp only [hm, not_false_eq_true, if_true, Bool.false_eq_true, if_false, P.runFlat]
        simp [agrees, AdOut.res, replyFor, u8]
        omega
    · have hany := any_toNat_eq (rest.take nm.toNat) 2 (by decide)
      have hpf : adapterProfile cfg = ⟨2, some (cfg.user, cfg.pass), [1]⟩ := by simp [adapterProfile, hauth]
      simp only [hpf, hany, if_true]
      by_cases hm : (rest.take nm.toNat).contains (u8 2) = true
      · simp only [hm, not_true_eq_false, if_false, if_true]
        exact adAuth_agrees c cfg ⟨2, some (cfg.user, cfg.pass), [1]⟩ rfl [u8 5, u8 2] (2 + nm.toNat)
          (rest.length + 2) (rest.drop nm.toNat) (by simp; omega)
      · simp only [hm, not_false_eq_true, if_true, Bool.false_eq_true, if_false, P.runFlat]
        simp [agrees, AdOut.res, replyFor, u8]
        omega

/-! ### UDP datagram header -/

theorem toNat_eq_zero (b : Byte) : b.toNat = 0 ↔ b = 0 := by
  constructor
  · intro h; apply UInt8.toNat_inj.mp; simpa using h
  · intro h; subst h; rfl

/-- `parseUDPHeader` returns exactly what the RFC reference assigns to the datagram. -/
theorem parseUDP_spec (c : IPText) (data : Bytes) : (parseUDPHeader c data).res = udpExpect c data := by
  match data with
  | [] => simp [parseUDPHeader, udpExpect, decodeUDP, UOut.res]
  | [_] => simp [parseUDPHeader, udpExpect, decodeUDP, UOut.res]
  | [_, _] => simp [parseUDPHeader, udpExpect, decodeUDP, UOut.res]
  | [_, _, _] => simp [parseUDPHeader, udpExpect, decodeUDP, UOut.res]
  | r1 :: r2 :: frag :: atyp :: rest =>
    have hlen : (r1 :: r2 :: frag :: atyp :: rest).length = rest.length + 4 := by simp
    have h4 : ¬ (rest.length + 4 < 4) := by omega
    simp only [parseUDPHeader, udpExpect, decodeUDP, hlen, h4, if_false, byteAt, List.getD_cons_zero,
      List.getD_cons_succ, socks5.AddrIPv4, socks5.AddrDomain, socks5.AddrIPv6]
    by_cases hf : frag ≠ 0
    · have : frag.toNat ≠ 0 := fun h => hf ((toNat_eq_zero frag).mp h)
      simp [hf, this, UOut.res]
    have hf0 : frag = 0 := by simpa using hf
    subst hf0
    simp only [show (0 : Byte).toNat = 0 from rfl, ne_eq, not_true_eq_false, if_false, List.drop_succ_cons,
      List.drop_zero]
    by_cases ha1 : atyp.toNat = 1
    · simp only [ha1, if_true, decAddr]
      have h6 : rest.drop 6 = (rest.drop 4).drop 2 := by simp [List.drop_drop]
      by_cases hl : 4 ≤ rest.length
      · have hrl : (rest.drop 4).length = rest.length - 4 := by simp
        simp only [hl, if_true, udpFinish, List.drop_succ_cons, List.drop_zero, Nat.reduceSub, h6]
        generalize rest.drop 4 = r at hrl
        match r, hrl with
        | [], hrl =>
          have : rest.length + 4 < 10 := by simp at hrl; omega
          simp [this, UOut.res]
        | [_], hrl =>
          have : rest.length + 4 < 10 := by simp at hrl; omega
          simp [this, UOut.res]
        | p1 :: p2 :: tl, hrl =>
          have : ¬ rest.length + 4 < 10 := by simp at hrl; omega
          simp [this, UOut.res, hostText, be16, byteAt]
      · have : rest.length + 4 < 10 := by omega
        simp [this, hl, UOut.res]
    by_cases ha4 : atyp.toNat = 4
    · simp only [ha4, if_true, decAddr, show ¬ (4 = 1) by decide, show ¬ (4 = 3) by decide, if_false]
      have h6 : rest.drop 18 = (rest.drop 16).drop 2 := by simp [List.drop_drop]
      by_cases hl : 16 ≤ rest.length
      · have hrl : (rest.drop 16).length = rest.length - 16 := by simp
        simp only [hl, if_true, udpFinish, List.drop_succ_cons, List.drop_zero, Nat.reduceSub, h6]
        generalize rest.drop 16 = r at hrl
        match r, hrl with
        | [], hrl =>
          have : rest.length + 4 < 22 := by simp at hrl; omega
          simp [this, UOut.res]
        | [_], hrl =>
          have : rest.length + 4 < 22 := by simp at hrl; omega
          simp [this, UOut.res]
        | p1 :: p2 :: tl, hrl =>
          have : ¬ rest.length + 4 < 22 := by simp at hrl; omega
          simp [this, UOut.res, hostText, be16, byteAt]
      · have : rest.length + 4 < 22 := by omega
        simp [this, hl, UOut.res]
    by_cases ha3 : atyp.toNat = 3
    · simp only [ha3, if_true, decAddr, show ¬ (3 = 1) by decide, show ¬ (3 = 4) by decide, if_false]
      match rest with
      | [] => simp [UOut.res]
      | l :: r0 =>
        have h5 : ¬ ((l :: r0).length + 4 < 5) := by simp
        have e1 : 5 + l.toNat + 2 - 2 = l.toNat + 5 := by omega
        have e2 : 5 + l.toNat + 2 = (l.toNat + 2) + 5 := by omega
        have d1 : List.drop (l.toNat + 5) (r1 :: r2 :: (0 : Byte) :: atyp :: l :: r0) = List.drop l.toNat r0 := by
          simp
        have d2 : List.drop (5 + l.toNat) ((0 : Byte) :: atyp :: l :: r0) = (r0.drop l.toNat).drop 2 := by
          rw [show 5 + l.toNat = l.toNat + 2 + 3 by omega]
          simp [List.drop_drop]
        simp only [h5, if_false, List.getD_cons_zero, List.drop_succ_cons, List.drop_zero, udpFinish, e1, d1]
        rw [e2, d2]
        by_cases hl : l.toNat ≤ r0.length
        · have hrl : (r0.drop l.toNat).length = r0.length - l.toNat := by simp
          simp only [hl, if_true]
          generalize r0.drop l.toNat = r at hrl
          match r, hrl with
          | [], hrl =>
            have : r0.length < l.toNat + 2 := by simp at hrl; omega
            simp [this, UOut.res]
          | [_], hrl =>
            have : r0.length < l.toNat + 2 := by simp at hrl; omega
            simp [this, UOut.res]
          | p1 :: p2 :: tl, hrl =>
            have : ¬ r0.length < l.toNat + 2 := by simp at hrl; omega
            simp [this, UOut.res, hostText, be16, byteAt]
        · have : r0.length < l.toNat + 2 := by omega
          simp [this, hl, UOut.res]
    simp [ha1, ha3, ha4, decAddr, UOut.res]

end Tunnox.C20
