import TunnoxModel.Spec.C20
import TunnoxModel.Proofs.Src
/-! Helper lemmas for C20. -/
namespace Tunnox.C20
open Gen

/-! ### Read programs depend only on the flat content of the source -/

theorem P.runSrc_flat {α : Type} (p : P α) (s : Src) :
    (p.runSrc s).1 = (p.runFlat s.flat).1 ∧ (p.runSrc s).2.flat = (p.runFlat s.flat).2 := by
  induction p generalizing s with
  | done a => simp [P.runSrc, P.runFlat]
  | read n e k ih =>
    simp only [P.runSrc, P.runFlat]
    rw [readFull_flat]
    by_cases hn : n ≤ s.flat.length
    · simp only [hn, if_true]
      have hok := readFull_flat s n
      rw [if_pos hn] at hok
      have hs := readFull_ok_rest_flat s _ _ _ hok
      have := ih (s.flat.take n) ⟨(readFullChunks s.pending n).2.1, s.tail⟩
      rw [hs.2.1] at this
      exact this
    · simp only [hn, if_false]
      exact ⟨trivial, rfl⟩

/-! ### Small facts -/

theorem isPrefixOf_self_append (w x : Bytes) : w.isPrefixOf (w ++ x) = true := by
  induction w with
  | nil => simp [List.isPrefixOf]
  | cons a w ih => simp [List.isPrefixOf, ih]

theorem drop_self_append (w x : Bytes) : (w ++ x).drop w.length = x := by
  induction w with
  | nil => rfl
  | cons a w ih => simpa using ih

theorem toNat_beq (m : Byte) (k : Nat) (hk : k < 256) : (m.toNat == k) = (m == u8 k) := by
  have h1 : (u8 k).toNat = k := by simp [u8, UInt8.toNat_ofNat']; omega
  by_cases h : m = u8 k
  · subst h; simp [h1]
  · have : m.toNat ≠ k := by
      intro h2; apply h; apply UInt8.toNat_inj.mp; rw [h1]; exact h2
    have h' : (m == u8 k) = false := by simpa using h
    rw [h']; simpa using this
theorem any_toNat_eq (l : Bytes) (k : Nat) (hk : k < 256) :
    l.any (fun m => m.toNat == k) = l.contains (u8 k) := by
  induction l with
  | nil => rfl
  | cons a l ih =>
    rw [List.any_cons, List.contains_cons, ih, toNat_beq a k hk]
    rw [BEq.comm (a := a)]

theorem reply_failure : isFailureReply (sendError socks5.RepFailure) = true := by decide
theorem reply_cmd : isReply 7 (sendError socks5.RepCmdNotSupp) = true := by decide
theorem reply_atyp : isReply 8 (sendError socks5.RepAddrNotSupp) = true := by decide

theorem readPort_flat (w : Bytes) (cmd : Nat) (host : Text) (bs : Bytes) :
    (readPort w cmd host).runFlat bs =
      match bs with
      | p1 :: p2 :: tl => (⟨.ok ⟨cmd, host, p1.toNat * 256 + p2.toNat⟩, w⟩, tl)
      | _ => (⟨.fail .readPort, w⟩, []) := by
  match bs with
  | [] => simp [readPort, P.runFlat]
  | [a] => simp [readPort, P.runFlat]
  | a :: b :: tl => simp [readPort, P.runFlat, be16, byteAt]

theorem request_agrees (c : IPText) (w : Bytes) (off total : Nat) (bs : Bytes)
    (ht : total = off + bs.length) :
    agrees (hsExpect c) (decodeReq listenerProfile off w bs)
      ((request c w).runFlat bs).1.out.res ((request c w).runFlat bs).1.written
      (total - ((request c w).runFlat bs).2.length) = true := by
  match bs, ht with
  | [], ht => simp [request, P.runFlat, decodeReq, agrees, HsOut.res, replyFor, ht]
  | [_], ht => simp [request, P.runFlat, decodeReq, agrees, HsOut.res, replyFor, ht]
  | [_, _], ht => simp [request, P.runFlat, decodeReq, agrees, HsOut.res, replyFor, ht]
  | [_, _, _], ht => simp [request, P.runFlat, decodeReq, agrees, HsOut.res, replyFor, ht]
  | ver :: cmd :: rsv :: atyp :: rest, ht =>
    have h4 : 4 ≤ (ver :: cmd :: rsv :: atyp :: rest).length := by simp
    simp only [request, P.runFlat, h4, if_true, decodeReq, List.take, List.drop, byteAt, List.getD_cons_zero,
      List.getD_cons_succ, socks5.Version, socks5.CmdConnect, socks5.CmdUDPAssoc, socks5.AddrIPv4,
      socks5.AddrDomain, socks5.AddrIPv6]
    have hcons : (ver :: cmd :: rsv :: atyp :: rest).length = rest.length + 4 := by simp
    rw [hcons] at ht
    rw [hcons]
    by_cases hv' : ver.toNat ≠ 5
    · simp [hv', P.runFlat, agrees, HsOut.res, replyFor, reply_failure, isPrefixOf_self_append,
        drop_self_append, ht] <;> omega
    have hv : ver.toNat = 5 := by omega
    by_cases hc' : cmd.toNat ≠ 1 ∧ cmd.toNat ≠ 3
    · simp [hv, hc', listenerProfile, P.runFlat, agrees, HsOut.res, replyFor, reply_cmd, isPrefixOf_self_append,
        drop_self_append, ht] <;> omega
    have hc : cmd.toNat = 1 ∨ cmd.toNat = 3 := by omega
    have hc1 : ¬ (cmd.toNat ≠ 1 ∧ cmd.toNat ≠ 3) := by omega
    have hc2 : listenerProfile.cmds.contains cmd.toNat = true := by
      rcases hc with h | h <;> simp [listenerProfile, h]
    simp only [hv, hc1, hc2, ne_eq, not_true_eq_false, if_false, not_false_eq_true]
    by_cases ha1 : atyp.toNat = 1
    · simp only [ha1, if_true, decAddr, P.runFlat]
      by_cases hl : 4 ≤ rest.length
      · have hrl : (rest.drop 4).length = rest.length - 4 := by simp
        have htl : (rest.take 4).length = 4 := by simp; omega
        simp only [hl, if_true, readPort_flat]
        generalize rest.drop 4 = r at hrl
        match r, hrl with
        | [], hrl => simp [agrees, HsOut.res, replyFor, ht]
        | [_], hrl => simp [agrees, HsOut.res, replyFor, ht]
        | p1 :: p2 :: tl, hrl =>
          simp [agrees, HsOut.res, hsExpect, hostText, Addr.enc, ht] at hrl ⊢
          omega
      · simp [hl, agrees, HsOut.res, replyFor, ht]
    by_cases ha4 : atyp.toNat = 4
    · simp only [ha4, if_true, decAddr, P.runFlat, show ¬ (4 = 1) by decide, show ¬ (4 = 3) by decide, if_false]
      by_cases hl : 16 ≤ rest.length
      · have hrl : (rest.drop 16).length = rest.length - 16 := by simp
        have htl : (rest.take 16).length = 16 := by simp; omega
        simp only [hl, if_true, readPort_flat]
        generalize rest.drop 16 = r at hrl
        match r, hrl with
        | [], hrl => simp [agrees, HsOut.res, replyFor, ht]
        | [_], hrl => simp [agrees, HsOut.res, replyFor, ht]
        | p1 :: p2 :: tl, hrl =>
          simp [agrees, HsOut.res, hsExpect, hostText, Addr.enc, ht] at hrl ⊢
          omega
      · simp [hl, agrees, HsOut.res, replyFor, ht]
    by_cases ha3 : atyp.toNat = 3
    · simp only [ha3, if_true, decAddr, P.runFlat, show ¬ (3 = 1) by decide, show ¬ (3 = 4) by decide, if_false]
      match rest, ht with
      | [], ht => simp [agrees, HsOut.res, replyFor, ht]
      | l :: r0, ht =>
        simp only [List.length_cons, Nat.le_add_left, if_true, List.take, List.drop, List.getD_cons_zero, P.runFlat]
        by_cases hl : l.toNat ≤ r0.length
        · have hrl : (r0.drop l.toNat).length = r0.length - l.toNat := by simp
          have htl : (r0.take l.toNat).length = l.toNat := by simp; omega
          simp only [hl, if_true, readPort_flat]
          generalize r0.drop l.toNat = r at hrl
          match r, hrl with
          | [], hrl => simp [agrees, HsOut.res, replyFor, ht]
          | [_], hrl => simp [agrees, HsOut.res, replyFor, ht]
          | p1 :: p2 :: tl, hrl =>
            simp [agrees, HsOut.res, hsExpect, hostText, Addr.enc, ht] at hrl ⊢
            omega
        · simp [hl, agrees, HsOut.res, replyFor, ht]
    simp [ha1, ha3, ha4, decAddr, P.runFlat, agrees, HsOut.res, replyFor, reply_atyp, isPrefixOf_self_append,
      drop_self_append, ht] <;> omega

/-- `Listener.Handshake` on a flat byte string satisfies the property. -/
theorem handshake_flat_holds (c : IPText) (bs : Bytes) :
    holdsHs c bs (hsObs bs ((handshakeP c).runFlat bs).1 ((handshakeP c).runFlat bs).2.length) = true := by
  unfold holdsHs holdsNeg hsObs
  match bs with
  | [] => simp [handshakeP, P.runFlat, decodeNeg, agrees, HsOut.res, replyFor]
  | [_] => simp [handshakeP, P.runFlat, decodeNeg, agrees, HsOut.res, replyFor]
  | ver :: nm :: rest =>
    have h2 : 2 ≤ (ver :: nm :: rest).length := by simp
    have hcons : (ver :: nm :: rest).length = rest.length + 2 := by simp
    simp only [handshakeP, P.runFlat, h2, if_true, decodeNeg, List.take, List.drop, byteAt, List.getD_cons_zero,
      List.getD_cons_succ, socks5.Version, socks5.AuthNone, socks5.AuthNoMatch]
    rw [hcons]
    by_cases hv : ver.toNat ≠ 5
    · simp [hv, P.runFlat, agrees, HsOut.res, replyFor]
    by_cases hn : nm.toNat = 0
    · simp [hv, hn, P.runFlat, agrees, HsOut.res, replyFor]
    by_cases hl : rest.length < nm.toNat
    · have hl' : ¬ nm.toNat ≤ rest.length := by omega
      simp [hv, hn, hl, hl', P.runFlat, agrees, HsOut.res, replyFor]
    have hl' : nm.toNat ≤ rest.length := by omega
    have hany := any_toNat_eq (rest.take nm.toNat) 0 (by decide)
    simp only [hv, hn, hl, hl', if_false, if_true, P.runFlat, hany, listenerProfile]
    by_cases hm : (rest.take nm.toNat).contains (u8 0) = true
    · simp only [hm, not_true_eq_false, if_false, if_true]
      have hreq := request_agrees c [u8 5, u8 0] (2 + nm.toNat) (rest.length + 2) (rest.drop nm.toNat)
        (by simp; omega)
      exact hreq
    · simp only [hm, not_false_eq_true, if_true, Bool.false_eq_true, if_false, P.runFlat]
      simp [agrees, HsOut.res, replyFor, u8]
      omega

end Tunnox.C20
