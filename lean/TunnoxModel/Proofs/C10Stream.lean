import TunnoxModel.Proofs.C10
/-! Helper lemmas for C10, stream part: the writer produces well-formed frames (segmentation), the
reader delivers exactly `deliver id fs` from any well-formed frame sequence `fs`. -/
namespace Tunnox.C10
open Gen

theorem max_pos : 0 < crossnode.MaxFrameSize := by decide

theorem data_ne_eof : crossnode.FrameTypeData ≠ crossnode.FrameTypeEOF := by decide
theorem data_ne_close : crossnode.FrameTypeData ≠ crossnode.FrameTypeClose := by decide
theorem eof_lt : crossnode.FrameTypeEOF < 256 := by decide
theorem close_lt : crossnode.FrameTypeClose < 256 := by decide
theorem data_lt : crossnode.FrameTypeData < 256 := by decide

theorem tunnelIDFromString_length (s : Bytes) : (tunnelIDFromString s).length = idLen := by
  simp [tunnelIDFromString, idLen]; omega

/-- Frames of tunnel `id` carrying data. -/
def OwnData (id : Bytes) (fs : List Frame) : Prop :=
  ∀ f ∈ fs, f.id = id ∧ f.ty = crossnode.FrameTypeData ∧ f.WF

def cat (fs : List Frame) : Bytes := (fs.map (·.data)).flatten

theorem deliver_ownData_append (id : Bytes) (a b : List Frame) (h : OwnData id a) :
    deliver id (a ++ b) = (cat a ++ (deliver id b).1, (deliver id b).2) := by
  induction a with
  | nil => simp [cat]
  | cons f a ih =>
    obtain ⟨h1, h2, -⟩ := h f (List.mem_cons_self ..)
    have ha : OwnData id a := fun g hg => h g (List.mem_cons_of_mem _ hg)
    simp only [List.cons_append, deliver, h1, h2, beq_self_eq_true, if_true, ih ha, cat, List.map_cons,
      List.flatten_cons, List.append_assoc]

/-! ### writer -/

theorem writeFrame_ok (f : Frame) (h : f.data.length ≤ crossnode.MaxFrameSize) :
    writeFrame f = some (encode f) := by
  have : ¬ f.data.length > crossnode.MaxFrameSize := Nat.not_lt.mpr h
  simp [writeFrame, this]

theorem writeLoop_spec (id : Bytes) (hid : id.length = idLen) (p : Bytes) (k written : Nat) (out : Bytes)
    (hw : written ≤ p.length) (hk : p.length - written ≤ k) :
    ∃ fs, writeLoop id p k written out = (p.length, true, out ++ encodeAll fs) ∧
      OwnData id fs ∧ cat fs = p.drop written ∧
      fs.length ≤ (p.length - written + (crossnode.MaxFrameSize - 1)) / crossnode.MaxFrameSize := by
  induction k generalizing written out with
  | zero =>
    have hwe : written = p.length := by omega
    refine ⟨[], ?_, ?_, ?_, by simp⟩
    · simp [writeLoop, hwe, encodeAll]
    · intro f hf; simp at hf
    · simp [cat, hwe]
  | succ k ih =>
    by_cases hlt : written < p.length
    · -- one more chunk
      have hM := max_pos
      generalize hcs : (if written + crossnode.MaxFrameSize > p.length then p.length - written
        else crossnode.MaxFrameSize) = cs
      have hcs1 : 1 ≤ cs := by subst hcs; split <;> omega
      have hcs2 : cs ≤ crossnode.MaxFrameSize := by subst hcs; split <;> omega
      have hcs3 : written + cs ≤ p.length := by subst hcs; split <;> omega
      have hcl : ((p.drop written).take cs).length = cs := by
        rw [List.length_take, List.length_drop]; omega
      have hwf : writeFrame ⟨id, crossnode.FrameTypeData, (p.drop written).take cs⟩ =
          some (encode ⟨id, crossnode.FrameTypeData, (p.drop written).take cs⟩) :=
        writeFrame_ok _ (by simp only [hcl]; exact hcs2)
      obtain ⟨fs, h1, h2, h3, h4⟩ := ih (written + cs) (out ++ encode ⟨id, crossnode.FrameTypeData, (p.drop written).take cs⟩)
        hcs3 (by omega)
      have hcount : (⟨id, crossnode.FrameTypeData, (p.drop written).take cs⟩ :: fs).length ≤
          (p.length - written + (crossnode.MaxFrameSize - 1)) / crossnode.MaxFrameSize := by
        have hcs4 : cs = crossnode.MaxFrameSize ∨ written + cs = p.length := by subst hcs; split <;> omega
        rw [List.length_cons]
        clear hwf hcl h1 h2 h3 ih
        simp only [crossnode.MaxFrameSize] at hcs1 hcs2 hcs3 hcs4 h4 ⊢
        omega
      refine ⟨⟨id, crossnode.FrameTypeData, (p.drop written).take cs⟩ :: fs, ?_, ?_, ?_, hcount⟩
      · unfold writeLoop
        simp only [hlt, if_true, hcs, hwf, h1, encodeAll_cons, List.append_assoc]
      · intro f hf
        rcases List.mem_cons.mp hf with hf | hf
        · subst hf
          exact ⟨rfl, rfl, hid, data_lt, by simp only [hcl]; exact hcs2⟩
        · exact h2 f hf
      · simp only [cat, List.map_cons, List.flatten_cons] at h3 ⊢
        rw [h3, ← List.drop_drop, List.take_append_drop]
    · have hwe : written = p.length := by omega
      refine ⟨[], ?_, ?_, ?_, by simp⟩
      · unfold writeLoop
        simp [hwe, encodeAll]
      · intro f hf; simp at hf
      · simp [cat, hwe]

theorem write_open (st : FS) (hid : st.tunnelID.length = idLen) (p : Bytes) (hopen : st.writeEOF = false) :
    ∃ fs, st.write p = (.ok p.length, { st with out := st.out ++ encodeAll fs }) ∧
      OwnData st.tunnelID fs ∧ cat fs = p ∧ fs.length ≤ p.length / crossnode.MaxFrameSize + 1 := by
  by_cases h0 : p.length = 0
  · have hp : p = [] := List.eq_nil_of_length_eq_zero h0
    refine ⟨[], ?_, ?_, ?_, by simp⟩
    · subst hp
      cases st
      simp_all [FS.write, encodeAll]
    · intro f hf; simp at hf
    · simp [cat, hp]
  · by_cases hbig : p.length > crossnode.MaxFrameSize
    · obtain ⟨fs, h1, h2, h3, h4⟩ := writeLoop_spec st.tunnelID hid p p.length 0 st.out (Nat.zero_le _) (by omega)
      have hc : fs.length ≤ p.length / crossnode.MaxFrameSize + 1 := by
        simp only [crossnode.MaxFrameSize] at h4 ⊢
        omega
      refine ⟨fs, ?_, h2, by simpa using h3, hc⟩
      unfold FS.write
      simp only [hopen, Bool.false_eq_true, if_false, beq_iff_eq, h0, hbig, if_true, h1]
    · have hle : p.length ≤ crossnode.MaxFrameSize := Nat.le_of_not_lt hbig
      refine ⟨[⟨st.tunnelID, crossnode.FrameTypeData, p⟩], ?_, ?_, ?_, by simp⟩
      · unfold FS.write
        simp only [hopen, Bool.false_eq_true, if_false, beq_iff_eq, h0, hbig,
          writeFrame_ok ⟨st.tunnelID, crossnode.FrameTypeData, p⟩ hle, encodeAll, List.map_cons, List.map_nil,
          List.flatten_cons, List.flatten_nil, List.append_nil]
      · intro f hf
        simp only [List.mem_singleton] at hf
        subst hf
        exact ⟨rfl, rfl, hid, data_lt, hle⟩
      · simp [cat]

theorem write_closed (st : FS) (p : Bytes) (h : st.writeEOF = true) : st.write p = (.closedPipe, st) := by
  simp [FS.write, h]

theorem closeWith_closed (st : FS) (ty : Nat) (h : st.writeEOF = true) : st.closeWith ty = st := by
  simp [FS.closeWith, h]

theorem closeWith_open (st : FS) (ty : Nat) (h : st.writeEOF = false) :
    st.closeWith ty = { st with out := st.out ++ encode ⟨st.tunnelID, ty, []⟩, writeEOF := true } := by
  have : writeFrame ⟨st.tunnelID, ty, []⟩ = some (encode ⟨st.tunnelID, ty, []⟩) :=
    writeFrame_ok _ (Nat.zero_le _)
  simp [FS.closeWith, h, this]

theorem evWF_inject {me tid : Bytes} {ty : Nat} {d : Bytes} (h : evWF me (.inject tid ty d) = true) :
    ty < 256 ∧ d.length ≤ crossnode.MaxFrameSize ∧
      (tid = me ∨ tunnelIDFromString tid ≠ tunnelIDFromString me) := by
  simpa [evWF, and_assoc] using h

/-- After our stream is closed: further writes are refused, closes are no-ops, injected frames still
travel.  Only `out` changes. -/
theorem runWriter_closed (me : Bytes) (st : FS) (evs : List Ev) (hc : st.writeEOF = true)
    (hwf : ∀ e ∈ evs, evWF me e = true) :
    ∃ fs, (runWriter st evs).2 = { st with out := st.out ++ encodeAll fs } ∧ (∀ f ∈ fs, f.WF) ∧
      (runWriter st evs).1 = expectedWrites false evs ∧ fs.length ≤ frameBound evs := by
  induction evs generalizing st with
  | nil => exact ⟨[], by cases st; simp [runWriter, encodeAll], by simp, rfl, by simp⟩
  | cons e evs ih =>
    have hrest : ∀ e ∈ evs, evWF me e = true := fun x hx => hwf x (List.mem_cons_of_mem _ hx)
    cases e with
    | write p =>
      obtain ⟨fs, h1, h2, h3, h4⟩ := ih st hc hrest
      exact ⟨fs, by simp [runWriter, write_closed st p hc, h1], h2,
        by simp [runWriter, write_closed st p hc, h3, expectedWrites],
        by simp only [frameBound]; exact Nat.le_trans h4 (Nat.le_add_left _ _)⟩
    | closeWrite =>
      obtain ⟨fs, h1, h2, h3, h4⟩ := ih st hc hrest
      exact ⟨fs, by simp [runWriter, FS.closeWrite, closeWith_closed st _ hc, h1], h2,
        by simp [runWriter, FS.closeWrite, closeWith_closed st _ hc, h3, expectedWrites], by simp only [frameBound]; omega⟩
    | close =>
      obtain ⟨fs, h1, h2, h3, h4⟩ := ih st hc hrest
      exact ⟨fs, by simp [runWriter, FS.close, closeWith_closed st _ hc, h1], h2,
        by simp [runWriter, FS.close, closeWith_closed st _ hc, h3, expectedWrites], by simp only [frameBound]; omega⟩
    | inject tid ty d =>
      obtain ⟨hty, hd, -⟩ := evWF_inject (hwf _ (List.mem_cons_self ..))
      have hw := writeFrame_ok ⟨tunnelIDFromString tid, ty, d⟩ hd
      obtain ⟨fs, h1, h2, h3, h4⟩ := ih { st with out := st.out ++ encode ⟨tunnelIDFromString tid, ty, d⟩ } hc hrest
      refine ⟨⟨tunnelIDFromString tid, ty, d⟩ :: fs, ?_, ?_, ?_, by simp only [frameBound, List.length_cons]; omega⟩
      · simp only [runWriter, hw, h1, encodeAll_cons, List.append_assoc]
      · intro f hf
        rcases List.mem_cons.mp hf with hf | hf
        · subst hf; exact ⟨tunnelIDFromString_length tid, hty, hd⟩
        · exact h2 f hf
      · simp only [runWriter, hw, h3, expectedWrites]

/-- While our stream is open: the wire is the encoding of well-formed frames from which a reader with
our frame id must deliver exactly what `expected` says, and every `Write` answered as expected. -/
theorem runWriter_open (me : Bytes) (st : FS) (evs : List Ev) (ho : st.writeEOF = false)
    (hid : st.tunnelID = tunnelIDFromString me) (hwf : ∀ e ∈ evs, evWF me e = true) :
    ∃ fs, (runWriter st evs).2.out = st.out ++ encodeAll fs ∧
      (runWriter st evs).2.broken = st.broken ∧ (∀ f ∈ fs, f.WF) ∧
      (runWriter st evs).1 = expectedWrites true evs ∧
      deliver (tunnelIDFromString me) fs = expected me evs ∧ fs.length ≤ frameBound evs := by
  induction evs generalizing st with
  | nil => exact ⟨[], by simp [runWriter, encodeAll], rfl, by simp, rfl, rfl, by simp⟩
  | cons e evs ih =>
    have hrest : ∀ e ∈ evs, evWF me e = true := fun x hx => hwf x (List.mem_cons_of_mem _ hx)
    have hidl : st.tunnelID.length = idLen := by rw [hid]; exact tunnelIDFromString_length me
    cases e with
    | write p =>
      obtain ⟨fsP, hw, hown, hcat, hcnt⟩ := write_open st hidl p ho
      obtain ⟨fs, h1, h2, h3, h4, h5, h6⟩ := ih { st with out := st.out ++ encodeAll fsP } ho hid hrest
      refine ⟨fsP ++ fs, ?_, ?_, ?_, ?_, ?_,
        by simp only [frameBound, List.length_append]; exact Nat.add_le_add hcnt h6⟩
      · simp only [runWriter, hw, h1, encodeAll_append, List.append_assoc]
      · simp only [runWriter, hw, h2]
      · intro f hf
        rcases List.mem_append.mp hf with hf | hf
        · exact (hown f hf).2.2
        · exact h3 f hf
      · simp only [runWriter, hw, h4, expectedWrites, if_true]
      · rw [deliver_ownData_append _ _ _ (hid ▸ hown), h5, hcat]
        simp [expected]
    | closeWrite =>
      have hst := closeWith_open st crossnode.FrameTypeEOF ho
      obtain ⟨fs, h1, h2, h3, h4⟩ := runWriter_closed me
        { st with out := st.out ++ encode ⟨st.tunnelID, crossnode.FrameTypeEOF, []⟩, writeEOF := true } evs rfl hrest
      refine ⟨⟨st.tunnelID, crossnode.FrameTypeEOF, []⟩ :: fs, ?_, ?_, ?_, ?_, ?_, by simp only [frameBound, List.length_cons]; omega⟩
      · simp only [runWriter, FS.closeWrite, hst, h1, encodeAll_cons, List.append_assoc]
      · simp only [runWriter, FS.closeWrite, hst, h1]
      · intro f hf
        rcases List.mem_cons.mp hf with hf | hf
        · subst hf; exact ⟨hidl, eof_lt, Nat.zero_le _⟩
        · exact h2 f hf
      · simp only [runWriter, FS.closeWrite, hst, h3, expectedWrites]
      · simp [deliver, expected, hid, isTerminator, Ne.symm data_ne_eof]
    | close =>
      have hst := closeWith_open st crossnode.FrameTypeClose ho
      obtain ⟨fs, h1, h2, h3, h4⟩ := runWriter_closed me
        { st with out := st.out ++ encode ⟨st.tunnelID, crossnode.FrameTypeClose, []⟩, writeEOF := true } evs rfl hrest
      refine ⟨⟨st.tunnelID, crossnode.FrameTypeClose, []⟩ :: fs, ?_, ?_, ?_, ?_, ?_, by simp only [frameBound, List.length_cons]; omega⟩
      · simp only [runWriter, FS.close, hst, h1, encodeAll_cons, List.append_assoc]
      · simp only [runWriter, FS.close, hst, h1]
      · intro f hf
        rcases List.mem_cons.mp hf with hf | hf
        · subst hf; exact ⟨hidl, close_lt, Nat.zero_le _⟩
        · exact h2 f hf
      · simp only [runWriter, FS.close, hst, h3, expectedWrites]
      · simp [deliver, expected, hid, isTerminator, Ne.symm data_ne_close]
    | inject tid ty d =>
      obtain ⟨hty, hd, hforeign⟩ := evWF_inject (hwf _ (List.mem_cons_self ..))
      have hw := writeFrame_ok ⟨tunnelIDFromString tid, ty, d⟩ hd
      obtain ⟨fs, h1, h2, h3, h4, h5, h6⟩ :=
        ih { st with out := st.out ++ encode ⟨tunnelIDFromString tid, ty, d⟩ } ho hid hrest
      refine ⟨⟨tunnelIDFromString tid, ty, d⟩ :: fs, ?_, ?_, ?_, ?_, ?_, by simp only [frameBound, List.length_cons]; omega⟩
      · simp only [runWriter, hw, h1, encodeAll_cons, List.append_assoc]
      · simp only [runWriter, hw, h2]
      · intro f hf
        rcases List.mem_cons.mp hf with hf | hf
        · subst hf; exact ⟨tunnelIDFromString_length tid, hty, hd⟩
        · exact h3 f hf
      · simp only [runWriter, hw, h4, expectedWrites]
      · by_cases hme : tid = me
        · subst hme
          simp only [deliver, expected, beq_self_eq_true, if_true, h5]
        · have hne : tunnelIDFromString tid ≠ tunnelIDFromString me := by
            rcases hforeign with h | h
            · exact absurd h hme
            · exact h
          have hb : (tunnelIDFromString tid == tunnelIDFromString me) = false := by
            simpa using hne
          have hb2 : (tid == me) = false := by simpa using hme
          simp only [deliver, expected, hb, hb2, Bool.false_eq_true, if_false, h5]

/-! ### reader -/

/-- What may follow the last complete frame on a connection that ends (or fails) there: nothing, or the
beginning of a frame cut off inside its header or payload.  The decoder fails on it with the error the
ending calls for (a close for `eof`, a transport error for `err`) and leaves nothing. -/
def Junk (junk : Bytes) (tl : Tail) : Prop :=
  ∃ e, (parseFrame junk tl).1 = .fail e ∧ (parseFrame junk tl).2.1 = [] ∧ closedErr e = (tl == .eof)

theorem junk_nil (tl : Tail) : Junk [] tl := by
  cases tl
  · exact ⟨.eof, by simp [parseFrame, crossnode.FrameHeaderSize], by simp [parseFrame, crossnode.FrameHeaderSize], rfl⟩
  · exact ⟨.header .err, by simp [parseFrame, crossnode.FrameHeaderSize],
      by simp [parseFrame, crossnode.FrameHeaderSize], rfl⟩

/-- The reader state is in step with the frame sequence still to come on the connection
(complete frames `fs`, then possibly a cut-off frame). -/
structure Inv (st : FS) (fs : List Frame) (tl : Tail) : Prop where
  flat : ∃ junk, st.conn.flat = encodeAll fs ++ junk ∧ Junk junk tl
  tail : st.conn.tail = tl
  wf : ∀ f ∈ fs, f.WF
  reof : st.readEOF = false

/-- Bytes still owed to the caller: the unread part of the buffered frame, then what the frames to come carry. -/
def pend (st : FS) (fs : List Frame) : Bytes :=
  st.readBuf.drop st.readOff ++ (deliver st.tunnelID fs).1

/-- What one `Read(p)` must satisfy, given the bytes owed `E`, whether a terminator is coming (`T`),
and the fields of the state a read never changes (`id`, `weof`) or changes only on error (`br`). -/
def ReadPost (tl : Tail) (fresh : Prop) (id : Bytes) (weof br : Bool) (E : Bytes) (T : Bool) (nfs p : Nat) (r : RRes) (st' : FS) : Prop :=
  match r with
  | .data d => d.length ≤ p ∧ (p = 0 ∨ d ≠ []) ∧ d <+: E ∧
      st'.tunnelID = id ∧ st'.writeEOF = weof ∧ st'.broken = br ∧
      ∃ fs', Inv st' fs' tl ∧ fs'.length ≤ nfs ∧ pend st' fs' = E.drop d.length ∧ (deliver id fs').2 = T ∧
        -- a result produced by the frame loop (`fresh`) consumed a frame, and a frame-sized buffer took all of it
        (fresh → fs'.length < nfs ∧ (crossnode.MaxFrameSize ≤ p → st'.readBuf = [] ∧ st'.readOff = 0))
  | .eof => E = [] ∧ (T = true ∨ tl = .eof) ∧ st'.readEOF = true ∧ st'.broken = br
  | .err _ => E = [] ∧ T = false ∧ tl = .err
  | .fuel => False

theorem ReadPost_mono {tl fresh id weof br E T n m p r st'} (h : ReadPost tl fresh id weof br E T n p r st') (hnm : n ≤ m) :
    ReadPost tl fresh id weof br E T m p r st' := by
  cases r with
  | data d =>
    obtain ⟨h1, h2, h3, h4, h5, h6, fs', h7, h8, h9, h10, h11⟩ := h
    exact ⟨h1, h2, h3, h4, h5, h6, fs', h7, Nat.le_trans h8 hnm, h9, h10,
      fun hf => ⟨Nat.lt_of_lt_of_le (h11 hf).1 hnm, (h11 hf).2⟩⟩
  | eof => exact h
  | err e => exact h
  | fuel => exact h

theorem ReadPost_weaken {tl id weof br E T n p r st'} (Q : Prop) (h : ReadPost tl True id weof br E T n p r st') :
    ReadPost tl Q id weof br E T n p r st' := by
  cases r with
  | data d =>
    obtain ⟨h1, h2, h3, h4, h5, h6, fs', h7, h8, h9, h10, h11⟩ := h
    exact ⟨h1, h2, h3, h4, h5, h6, fs', h7, h8, h9, h10, fun _ => h11 trivial⟩
  | eof => exact h
  | err e => exact h
  | fuel => exact h

theorem readFrame_junk (s : Src) (junk : Bytes) (hj : Junk junk s.tail) (h : s.flat = junk) :
    ∃ e, (readFrame s).out = .fail e ∧ closedErr e = (s.tail == .eof) := by
  obtain ⟨h1, -, -, -⟩ := readFrame_flat s
  obtain ⟨e, e1, -, e3⟩ := hj
  rw [h, e1] at h1
  exact ⟨e, h1, e3⟩

theorem readFrame_cons (s : Src) (f : Frame) (fs : List Frame) (junk : Bytes) (hf : f.WF)
    (h : s.flat = encodeAll (f :: fs) ++ junk) :
    (readFrame s).out = .frame f ∧ (readFrame s).rest.flat = encodeAll fs ++ junk ∧
      (readFrame s).rest.tail = s.tail := by
  obtain ⟨h1, h2, -, h4⟩ := readFrame_flat s
  rw [h, encodeAll_cons, List.append_assoc, parse_encode f hf] at h1 h2
  exact ⟨h1, h2, h4⟩

theorem nextFrame_spec (trk : Tracker) (tl : Tail) (junk : Bytes) (hj : Junk junk tl)
    (fs : List Frame) (st : FS) (k p : Nat)
    (hflat : st.conn.flat = encodeAll fs ++ junk) (htail : st.conn.tail = tl) (hwf : ∀ f ∈ fs, f.WF)
    (hre : st.readEOF = false) (hk : fs.length < k) :
    ReadPost tl True st.tunnelID st.writeEOF st.broken (deliver st.tunnelID fs).1 (deliver st.tunnelID fs).2
      fs.length p (nextFrame trk k st p).1 (nextFrame trk k st p).2 := by
  induction fs generalizing st k with
  | nil =>
    cases k with
    | zero => omega
    | succ k =>
      obtain ⟨e, h1, h1c⟩ := readFrame_junk st.conn junk (htail ▸ hj) (by simpa [encodeAll] using hflat)
      rw [htail] at h1c
      cases tl with
      | eof =>
        have hc : closedErr e = true := h1c
        simp only [nextFrame, h1, hc, if_true, ReadPost, deliver]
        simp
      | err =>
        have hc : closedErr e = false := h1c
        simp only [nextFrame, h1, hc, Bool.false_eq_true, if_false, ReadPost, deliver]
        simp
  | cons f fs ih =>
    cases k with
    | zero => omega
    | succ k =>
      have hf := hwf f (List.mem_cons_self ..)
      have hfs : ∀ g ∈ fs, g.WF := fun g hg => hwf g (List.mem_cons_of_mem _ hg)
      have hk' : fs.length < k := by simp at hk; omega
      obtain ⟨h1, h2, h3⟩ := readFrame_cons st.conn f fs junk hf hflat
      have hrec := ih { st with conn := (readFrame st.conn).rest } k h2 (by rw [h3, htail]) hfs hre hk'
      simp only at hrec
      have hskip : ReadPost tl True st.tunnelID st.writeEOF st.broken (deliver st.tunnelID fs).1
          (deliver st.tunnelID fs).2 (f :: fs).length p
          (nextFrame trk k { st with conn := (readFrame st.conn).rest } p).1
          (nextFrame trk k { st with conn := (readFrame st.conn).rest } p).2 :=
        ReadPost_mono hrec (by simp)
      by_cases hid : f.id = st.tunnelID
      · have hb : (f.id != st.tunnelID) = false := by simp [hid]
        have hb' : (f.id == st.tunnelID) = true := by simp [hid]
        by_cases hdata : f.ty = crossnode.FrameTypeData
        · by_cases hz : f.data.length = 0
          · -- empty data frame: skipped
            have hd0 : f.data = [] := List.eq_nil_of_length_eq_zero hz
            simp only [nextFrame, h1, hb, Bool.false_eq_true, if_false, hdata, beq_self_eq_true, if_true,
              deliver, hb', hd0, List.nil_append, List.length_nil]
            simpa [hd0] using hskip
          · -- data for us
            have hzb : (f.data.length == 0) = false := by simpa using hz
            simp only [nextFrame, h1, hb, Bool.false_eq_true, if_false, hdata, beq_self_eq_true, if_true, hzb,
              deliver, hb', ReadPost]
            have hpos : 0 < f.data.length := Nat.pos_of_ne_zero hz
            refine ⟨by rw [List.length_take]; exact Nat.min_le_left _ _, ?_, ?_, ?_⟩
            · by_cases hp0 : p = 0
              · exact Or.inl hp0
              · right
                intro hnil
                have hl := congrArg List.length hnil
                rw [List.length_take, List.length_nil] at hl
                have : 0 < min p f.data.length := Nat.lt_min.mpr ⟨Nat.pos_of_ne_zero hp0, hpos⟩
                omega
            · exact (List.take_prefix p f.data).trans (List.prefix_append _ _)
            · by_cases hfull : min p f.data.length ≥ f.data.length
              · simp only [hfull, if_true]
                refine ⟨trivial, trivial, trivial, fs, ⟨⟨junk, h2, hj⟩, by rw [h3, htail], hfs, hre⟩, by simp, ?_, rfl,
                  fun _ => ⟨by simp, fun _ => by simp⟩⟩
                have hl : (f.data.take p).length = f.data.length := by
                  rw [List.length_take]; omega
                simp only [pend, List.drop_nil, List.nil_append, hl, List.drop_left']
              · simp only [hfull, if_false]
                have hlt : p < f.data.length := by omega
                refine ⟨trivial, trivial, trivial, fs, ⟨⟨junk, h2, hj⟩, by rw [h3, htail], hfs, hre⟩, by simp, ?_, rfl,
                  fun _ => ⟨by simp, fun hp => absurd (Nat.lt_of_lt_of_le hlt hf.2.2) (Nat.not_lt.mpr hp)⟩⟩
                have hl : (f.data.take p).length = p := by
                  rw [List.length_take]; omega
                have hm : min p f.data.length = p := by omega
                simp only [pend, hl, hm]
                rw [List.drop_append_of_le_length (Nat.le_of_lt hlt)]
        · have hdb : (f.ty == crossnode.FrameTypeData) = false := by simpa using hdata
          by_cases heof : f.ty = crossnode.FrameTypeEOF
          · simp only [nextFrame, h1, hb, Bool.false_eq_true, if_false, heof, beq_self_eq_true, if_true,
              deliver, hb', isTerminator, Bool.true_or, ReadPost]
            have : (crossnode.FrameTypeEOF == crossnode.FrameTypeData) = false := by decide
            simp [this]
          · have heb : (f.ty == crossnode.FrameTypeEOF) = false := by simpa using heof
            by_cases hcl : f.ty = crossnode.FrameTypeClose
            · simp only [nextFrame, h1, hb, Bool.false_eq_true, if_false, hcl, beq_self_eq_true, if_true,
                deliver, hb', isTerminator, Bool.or_true, ReadPost]
              have h1' : (crossnode.FrameTypeClose == crossnode.FrameTypeData) = false := by decide
              have h2' : (crossnode.FrameTypeClose == crossnode.FrameTypeEOF) = false := by decide
              simp [h1', h2']
            · have hcb : (f.ty == crossnode.FrameTypeClose) = false := by simpa using hcl
              simp only [nextFrame, h1, hb, Bool.false_eq_true, if_false, hdb, heb, hcb, deliver, hb', if_true,
                isTerminator, Bool.or_self]
              exact hskip
      · have hb : (f.id != st.tunnelID) = true := by simpa using hid
        have hb' : (f.id == st.tunnelID) = false := by simpa using hid
        simp only [nextFrame, h1, hb, if_true, ite_self, deliver, hb', Bool.false_eq_true, if_false]
        exact hskip

theorem read_spec (trk : Tracker) (tl : Tail) (fs : List Frame) (st : FS) (fuel p : Nat) (hinv : Inv st fs tl)
    (hk : fs.length < fuel) :
    ReadPost tl (¬ st.readOff < st.readBuf.length) st.tunnelID st.writeEOF st.broken (pend st fs) (deliver st.tunnelID fs).2
      fs.length p (FS.read trk fuel st p).1 (FS.read trk fuel st p).2 := by
  unfold FS.read
  simp only [hinv.reof, Bool.false_eq_true, if_false]
  by_cases hbuf : st.readOff < st.readBuf.length
  · simp only [hbuf, if_true, ReadPost]
    have hdl : (st.readBuf.drop st.readOff).length = st.readBuf.length - st.readOff := List.length_drop
    have hlen : ((st.readBuf.drop st.readOff).take p).length = min p (st.readBuf.length - st.readOff) := by
      rw [List.length_take, hdl]
    refine ⟨by rw [hlen]; exact Nat.min_le_left _ _, ?_, ?_, ?_⟩
    · by_cases hp0 : p = 0
      · exact Or.inl hp0
      · right
        intro hnil
        have hl := congrArg List.length hnil
        rw [hlen, List.length_nil] at hl
        omega
    · exact (List.take_prefix p _).trans (List.prefix_append _ _)
    · by_cases hfull : st.readOff + ((st.readBuf.drop st.readOff).take p).length ≥ st.readBuf.length
      · simp only [hfull, if_true]
        refine ⟨trivial, trivial, trivial, fs, ⟨hinv.flat, hinv.tail, hinv.wf, by first | rfl | exact hinv.reof⟩, Nat.le_refl _, ?_, rfl,
          fun hf => absurd trivial hf⟩
        have hl : ((st.readBuf.drop st.readOff).take p).length = (st.readBuf.drop st.readOff).length := by
          rw [hlen, hdl]; rw [hlen] at hfull; omega
        simp only [pend, List.drop_nil, List.nil_append]
        rw [hl, List.drop_left' rfl]
      · simp only [hfull, if_false]
        refine ⟨trivial, trivial, trivial, fs, ⟨hinv.flat, hinv.tail, hinv.wf, by first | rfl | exact hinv.reof⟩, Nat.le_refl _, ?_, rfl,
          fun hf => absurd trivial hf⟩
        have hl : ((st.readBuf.drop st.readOff).take p).length = p := by
          rw [hlen]; rw [hlen] at hfull; omega
        have hple : p ≤ (st.readBuf.drop st.readOff).length := by
          rw [hdl]; rw [hlen] at hfull; omega
        simp only [pend, hl]
        rw [List.drop_append_of_le_length hple, List.drop_drop]
  · simp only [hbuf, if_false]
    have he : st.readBuf.drop st.readOff = [] := List.drop_of_length_le (Nat.le_of_not_lt hbuf)
    obtain ⟨junk, hfl, hj⟩ := hinv.flat
    have := nextFrame_spec trk tl junk hj fs st fuel p hfl hinv.tail hinv.wf hinv.reof hk
    simpa [pend, he] using this

theorem readLoop_eof (trk : Tracker) (fuel : Nat) (st : FS) (ps : List Nat) (h : st.readEOF = true) :
    (readLoop trk fuel st ps).1 = ps.map (fun _ => RRes.eof) ∧ (readLoop trk fuel st ps).2 = st := by
  induction ps with
  | nil => simp [readLoop]
  | cons p ps ih =>
    have : FS.read trk fuel st p = (.eof, st) := by simp [FS.read, h]
    simp [readLoop, this, ih.1, ih.2]

/-- The whole read side: any sequence of `Read` calls satisfies the call-by-call check. -/
theorem readLoop_checks (trk : Tracker) (tl : Tail) (fuel : Nat) (ps : List Nat) (st : FS) (fs : List Frame)
    (hinv : Inv st fs tl) (hk : fs.length < fuel) (eofOk : Bool)
    (heo : eofOk = ((deliver st.tunnelID fs).2 || tl == .eof)) :
    checkReads eofOk (!eofOk) (pend st fs) ps (readLoop trk fuel st ps).1 = true ∧
    (eofOk = true → (readLoop trk fuel st ps).2.broken = st.broken) := by
  induction ps generalizing st fs with
  | nil => simp [readLoop, checkReads]
  | cons p ps ih =>
    have hpost := read_spec trk tl fs st fuel p hinv hk
    unfold readLoop
    cases hr : (FS.read trk fuel st p).1 with
    | data d =>
      rw [hr] at hpost
      obtain ⟨h1, h2, h3, h4, h5, h6, fs', h7, h8, h9, h10, -⟩ := hpost
      have heo' : eofOk = ((deliver (FS.read trk fuel st p).2.tunnelID fs').2 || tl == .eof) := by
        rw [h4, h10]; exact heo
      obtain ⟨i1, i2⟩ := ih (FS.read trk fuel st p).2 fs' h7 (Nat.lt_of_le_of_lt h8 hk) heo'
      simp only [hr]
      refine ⟨?_, fun he => by rw [i2 he, h6]⟩
      simp only [checkReads, Bool.and_eq_true, decide_eq_true_eq]
      refine ⟨⟨⟨h1, ?_⟩, ?_⟩, ?_⟩
      · rcases h2 with h2 | h2
        · simp [h2]
        · cases d with
          | nil => exact absurd rfl h2
          | cons a b => simp
      · exact List.isPrefixOf_iff_prefix.mpr h3
      · rw [← h9]; exact i1
    | eof =>
      rw [hr] at hpost
      obtain ⟨h1, h2, h3, h4⟩ := hpost
      obtain ⟨e1, e2⟩ := readLoop_eof trk fuel (FS.read trk fuel st p).2 ps h3
      simp only [hr]
      refine ⟨?_, fun _ => by rw [e2, h4]⟩
      have hok : eofOk = true := by
        rw [heo]
        rcases h2 with h2 | h2
        · simp [h2]
        · simp [h2]
      simp only [checkReads, h1, List.isEmpty_nil, hok, Bool.true_and, e1, List.all_map]
      simp
    | err e =>
      rw [hr] at hpost
      obtain ⟨h1, h2, h3⟩ := hpost
      have hno : eofOk = false := by
        rw [heo, h2, h3]; rfl
      simp only [hr]
      refine ⟨?_, fun he => by rw [hno] at he; cases he⟩
      simp [checkReads, h1, hno]
    | fuel =>
      rw [hr] at hpost
      exact absurd hpost id

/-- **Progress with frame-sized buffers**: if every read buffer holds a whole frame, the buffer is empty
and an end-of-stream is due, then more reads than there are frames reach the end-of-stream. -/
theorem readLoop_big (trk : Tracker) (tl : Tail) (fuel : Nat) (ps : List Nat) (st : FS) (fs : List Frame)
    (hinv : Inv st fs tl) (hk : fs.length < fuel)
    (heo : ((deliver st.tunnelID fs).2 || tl == .eof) = true)
    (hbuf : st.readBuf = [] ∧ st.readOff = 0)
    (hps : ∀ p ∈ ps, crossnode.MaxFrameSize ≤ p) (hlen : fs.length < ps.length) :
    RRes.eof ∈ (readLoop trk fuel st ps).1 := by
  induction ps generalizing st fs with
  | nil => simp at hlen
  | cons p ps ih =>
    have hpost := read_spec trk tl fs st fuel p hinv hk
    have hfresh : ¬ st.readOff < st.readBuf.length := by simp [hbuf.1, hbuf.2]
    have hp : crossnode.MaxFrameSize ≤ p := hps p (List.mem_cons_self ..)
    unfold readLoop
    cases hr : (FS.read trk fuel st p).1 with
    | data d =>
      rw [hr] at hpost
      obtain ⟨-, -, -, h4, -, -, fs', h7, -, -, h10, h11⟩ := hpost
      obtain ⟨hlt, hb⟩ := h11 hfresh
      simp only [hr, List.mem_cons]
      right
      exact ih (FS.read trk fuel st p).2 fs' h7 (Nat.lt_trans hlt hk) (by rw [h4, h10]; exact heo) (hb hp)
        (fun q hq => hps q (List.mem_cons_of_mem _ hq)) (by simp at hlen; omega)
    | eof => simp [hr]
    | err e =>
      rw [hr] at hpost
      obtain ⟨-, h2, h3⟩ := hpost
      rw [h2, h3] at heo
      simp at heo
    | fuel =>
      rw [hr] at hpost
      exact absurd hpost id

/-! ### fields the two halves of a stream leave alone -/

/-- Writing never touches the read half. -/
def SameRead (st st' : FS) : Prop :=
  st'.tunnelID = st.tunnelID ∧ st'.conn = st.conn ∧ st'.readEOF = st.readEOF ∧
  st'.readBuf = st.readBuf ∧ st'.readOff = st.readOff

theorem write_fields (st : FS) (p : Bytes) : SameRead st (st.write p).2 := by
  unfold FS.write SameRead
  by_cases h1 : st.writeEOF = true
  · simp [h1]
  · by_cases h2 : (p.length == 0) = true
    · simp [h1, h2]
    · by_cases h3 : p.length > crossnode.MaxFrameSize
      · cases h4 : (writeLoop st.tunnelID p p.length 0 st.out).2.1 <;> simp [h1, h2, h3, h4]
      · cases h4 : writeFrame ⟨st.tunnelID, crossnode.FrameTypeData, p⟩ <;> simp [h1, h2, h3, h4]

theorem closeWith_fields (st : FS) (ty : Nat) : SameRead st (st.closeWith ty) := by
  unfold FS.closeWith SameRead
  repeat' split
  all_goals simp

theorem SameRead.trans {a b c : FS} (h1 : SameRead a b) (h2 : SameRead b c) : SameRead a c := by
  obtain ⟨a1, a2, a3, a4, a5⟩ := h1
  obtain ⟨b1, b2, b3, b4, b5⟩ := h2
  exact ⟨b1.trans a1, b2.trans a2, b3.trans a3, b4.trans a4, b5.trans a5⟩

theorem runWriter_fields (st : FS) (evs : List Ev) : SameRead st (runWriter st evs).2 := by
  induction evs generalizing st with
  | nil => exact ⟨rfl, rfl, rfl, rfl, rfl⟩
  | cons e evs ih =>
    cases e with
    | write p => exact (write_fields st p).trans (ih _)
    | closeWrite => exact (closeWith_fields st _).trans (ih _)
    | close => exact (closeWith_fields st _).trans (ih _)
    | inject tid ty d =>
      simp only [runWriter]
      split
      · exact ih st
      · exact SameRead.trans ⟨rfl, rfl, rfl, rfl, rfl⟩ (ih _)

/-- Reading never touches the write half. -/
def SameWrite (st st' : FS) : Prop :=
  st'.tunnelID = st.tunnelID ∧ st'.writeEOF = st.writeEOF ∧ st'.out = st.out

theorem nextFrame_fields (trk : Tracker) (k : Nat) (st : FS) (p : Nat) : SameWrite st (nextFrame trk k st p).2 := by
  induction k generalizing st with
  | zero => exact ⟨rfl, rfl, rfl⟩
  | succ k ih =>
    unfold nextFrame
    simp only
    split
    · split <;> exact ⟨rfl, rfl, rfl⟩
    · have h := ih { st with conn := (readFrame st.conn).rest }
      repeat' split
      all_goals first | exact h | exact ⟨rfl, rfl, rfl⟩

theorem read_fields (trk : Tracker) (fuel : Nat) (st : FS) (p : Nat) : SameWrite st (FS.read trk fuel st p).2 := by
  unfold FS.read SameWrite
  by_cases h1 : st.readEOF = true
  · simp [h1]
  · by_cases h2 : st.readOff < st.readBuf.length
    · simp only [h1, h2, Bool.false_eq_true, if_false, if_true]
      split <;> simp
    · simp only [h1, h2, Bool.false_eq_true, if_false]
      exact nextFrame_fields trk fuel st p

theorem readLoop_fields (trk : Tracker) (fuel : Nat) (st : FS) (ps : List Nat) :
    SameWrite st (readLoop trk fuel st ps).2 := by
  induction ps generalizing st with
  | nil => exact ⟨rfl, rfl, rfl⟩
  | cons p ps ih =>
    have h := read_fields trk fuel st p
    have hi := ih (FS.read trk fuel st p).2
    unfold readLoop
    simp only
    split
    · exact h
    · exact h
    · exact ⟨hi.1.trans h.1, hi.2.1.trans h.2.1, hi.2.2.trans h.2.2⟩

/-! ### what the call-by-call check implies about the delivered bytes -/

theorem delivered_all_eof (rs : List RRes) (h : rs.all (· == .eof) = true) : delivered rs = [] := by
  induction rs with
  | nil => rfl
  | cons r rs ih =>
    simp only [List.all_cons, Bool.and_eq_true, beq_iff_eq] at h
    obtain ⟨h1, h2⟩ := h
    subst h1
    simpa [delivered] using ih h2

theorem checkReads_prefix (eofOk errOk : Bool) (exp : Bytes) (ps : List Nat) (rs : List RRes)
    (h : checkReads eofOk errOk exp ps rs = true) :
    delivered rs <+: exp ∧ ((RRes.eof ∈ rs ∨ ∃ e, RRes.err e ∈ rs) → delivered rs = exp) := by
  induction rs generalizing exp ps with
  | nil => exact ⟨by simp [delivered], by simp⟩
  | cons r rs ih =>
    cases ps with
    | nil => simp [checkReads] at h
    | cons p ps =>
      cases r with
      | data d =>
        simp only [checkReads, Bool.and_eq_true, decide_eq_true_eq] at h
        obtain ⟨⟨⟨-, -⟩, hpre⟩, hrest⟩ := h
        have hpre' : d <+: exp := List.isPrefixOf_iff_prefix.mp hpre
        obtain ⟨t, ht⟩ := hpre'
        obtain ⟨i1, i2⟩ := ih _ _ hrest
        have hd : exp.drop d.length = t := by rw [← ht, List.drop_left']; rfl
        rw [hd] at i1 i2
        refine ⟨?_, ?_⟩
        · simp only [delivered]
          rw [← ht]
          exact (List.prefix_append_right_inj d).mpr i1
        · intro hm
          have hm' : RRes.eof ∈ rs ∨ ∃ e, RRes.err e ∈ rs := by
            rcases hm with hm | ⟨e, hm⟩
            · left; simpa using hm
            · right; exact ⟨e, by simpa using hm⟩
          simp only [delivered]
          rw [i2 hm', ht]
      | eof =>
        simp only [checkReads, Bool.and_eq_true] at h
        obtain ⟨⟨h1, -⟩, h3⟩ := h
        have he : exp = [] := by simpa using h1
        have hd := delivered_all_eof rs h3
        subst he
        simp [delivered, hd]
      | err e =>
        simp only [checkReads, Bool.and_eq_true] at h
        obtain ⟨⟨h1, -⟩, h3⟩ := h
        have he : exp = [] := by simpa using h1
        have hr : rs = [] := by simpa using h3
        subst he hr
        simp [delivered]
      | fuel => simp [checkReads] at h

/-! ### a connection cut at an arbitrary offset -/

theorem junk_prefix (f : Frame) (hwf : f.WF) (j : Nat) (hj : j < (encode f).length) (tl : Tail) :
    Junk ((encode f).take j) tl := by
  obtain ⟨hid, hty, hlen⟩ := hwf
  have hhl := header_length f.id f.ty f.data.length hid
  by_cases hs : j < crossnode.FrameHeaderSize
  · -- cut inside the header
    have hl : ((encode f).take j).length = j := by rw [List.length_take]; omega
    have hlt : ((encode f).take j).length < crossnode.FrameHeaderSize := by rw [hl]; exact hs
    generalize (encode f).take j = part at hlt
    clear hl
    cases tl with
    | eof =>
      by_cases he : part.isEmpty
      · exact ⟨.eof, by simp [parseFrame, hlt, he], by simp [parseFrame, hlt], rfl⟩
      · exact ⟨.header .eof, by simp [parseFrame, hlt, he], by simp [parseFrame, hlt], rfl⟩
    | err =>
      exact ⟨.header .err, by simp [parseFrame, hlt], by simp [parseFrame, hlt], rfl⟩
  · -- cut inside the payload
    have hge : crossnode.FrameHeaderSize ≤ j := Nat.le_of_not_lt hs
    have hel : (encode f).length = crossnode.FrameHeaderSize + f.data.length := encode_length f hid
    have e : (encode f).take j = header f.id f.ty f.data.length ++ f.data.take (j - crossnode.FrameHeaderSize) := by
      unfold encode
      rw [List.take_append, hhl, List.take_of_length_le (by rw [hhl]; exact hge)]
    have hnl : ¬ ((encode f).take j).length < crossnode.FrameHeaderSize := by
      rw [List.length_take]; omega
    have htake : ((encode f).take j).take crossnode.FrameHeaderSize = header f.id f.ty f.data.length := by
      rw [e, ← hhl, List.take_left']; rfl
    have hdrop : ((encode f).take j).drop crossnode.FrameHeaderSize = f.data.take (j - crossnode.FrameHeaderSize) := by
      rw [e, ← hhl, List.drop_left']; rfl
    have hun : unbe32 ((header f.id f.ty f.data.length).drop (idLen + 1)) = f.data.length := by
      rw [header_drop _ _ _ hid, unbe32_be32 _ (Nat.lt_of_le_of_lt hlen max_lt)]
    have h1 : ¬ f.data.length > crossnode.MaxFrameSize := Nat.not_lt.mpr hlen
    have h2 : (f.data.take (j - crossnode.FrameHeaderSize)).length < f.data.length := by
      rw [List.length_take]; omega
    refine ⟨.data tl, ?_, ?_, by cases tl <;> rfl⟩
    · unfold parseFrame
      simp only [hnl, if_false, htake, hdrop, hun, h1, h2, if_true]
    · unfold parseFrame
      simp only [hnl, if_false, htake, hdrop, hun, h1, h2, if_true]

/-- A prefix of a sequence of encoded frames is a sequence of complete frames followed by a cut-off one. -/
theorem take_encodeAll (fs : List Frame) (hwf : ∀ f ∈ fs, f.WF) (k : Nat) (tl : Tail) :
    ∃ fs' junk, (encodeAll fs).take k = encodeAll fs' ++ junk ∧ Junk junk tl ∧ fs' <+: fs := by
  induction fs generalizing k with
  | nil => exact ⟨[], [], by simp [encodeAll], junk_nil tl, List.prefix_refl _⟩
  | cons f fs ih =>
    have hf := hwf f (List.mem_cons_self ..)
    have hfs : ∀ g ∈ fs, g.WF := fun g hg => hwf g (List.mem_cons_of_mem _ hg)
    by_cases hk : (encode f).length ≤ k
    · obtain ⟨fs', junk, h1, h2, h3⟩ := ih hfs (k - (encode f).length)
      refine ⟨f :: fs', junk, ?_, h2, ?_⟩
      · rw [encodeAll_cons, List.take_append, List.take_of_length_le hk, h1, encodeAll_cons, List.append_assoc]
      · exact (List.prefix_cons_inj f).mpr h3
    · have hlt : k < (encode f).length := Nat.lt_of_not_le hk
      refine ⟨[], (encode f).take k, ?_, junk_prefix f hf k hlt tl, List.nil_prefix⟩
      rw [encodeAll_cons, List.take_append_of_le_length (Nat.le_of_lt hlt)]
      simp [encodeAll]

theorem deliver_prefix (id : Bytes) (a b : List Frame) :
    (deliver id a).1 <+: (deliver id (a ++ b)).1 := by
  induction a with
  | nil => simp [deliver]
  | cons f a ih =>
    simp only [List.cons_append, deliver]
    split
    · split
      · exact (List.prefix_append_right_inj f.data).mpr ih
      · split
        · exact List.prefix_refl _
        · exact ih
    · exact ih

theorem checkReads_shape (eofOk errOk : Bool) (exp : Bytes) (ps : List Nat) (rs : List RRes)
    (h : checkReads eofOk errOk exp ps rs = true) : wellShaped ps rs = true := by
  induction rs generalizing exp ps with
  | nil => cases ps <;> rfl
  | cons r rs ih =>
    cases ps with
    | nil => simp [checkReads] at h
    | cons p ps =>
      cases r with
      | data d =>
        simp only [checkReads, Bool.and_eq_true] at h
        obtain ⟨⟨⟨h1, h2⟩, -⟩, h4⟩ := h
        simp only [wellShaped, Bool.and_eq_true]
        exact ⟨⟨h1, h2⟩, ih _ _ h4⟩
      | eof =>
        simp only [checkReads, Bool.and_eq_true] at h
        simpa [wellShaped] using h.2
      | err e =>
        simp only [checkReads, Bool.and_eq_true] at h
        simpa [wellShaped] using h.2
      | fuel => simp [checkReads] at h

end Tunnox.C10
