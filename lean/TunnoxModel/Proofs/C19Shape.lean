import TunnoxModel.Proofs.C19Look
import TunnoxModel.Proofs.C19Own
/-!
  C19 — shape of one model step (what can change, when an operation returns what), and "in flight".
-/
namespace Tunnox.C19
open Gen

/-- Thread `th` is inside operation `o` (invoked, not yet returned). -/
def InFlight (th : Thread) (o : Op) : Prop := ∃ rest, th.todo = o :: rest ∧ th.pc ≠ .idle

theorem stepOp_none_pc (cf : Config) (s : Store) (o : Op) (pc : PC)
    (h : (stepOp cf s o pc).2.2 = none) : (stepOp cf s o pc).2.1 ≠ .idle := by
  revert h
  cases o <;> cases pc <;>
    simp only [stepOp, stepCreate, stepDelete, stepUpdate, stepLookup, registryStage] <;>
    (repeat' split) <;> simp

theorem stepOp_createId_keep (cf : Config) (s : Store) (o : Op) (pc : PC) (n : Nat)
    (hid : pc.createId = some n) (h : (stepOp cf s o pc).2.2 = none) : (stepOp cf s o pc).2.1.createId = some n := by
  revert h hid
  cases o <;> cases pc <;>
    simp only [stepOp, stepCreate, stepDelete, stepUpdate, stepLookup, registryStage] <;>
    (repeat' split) <;> simp [PC.createId]

theorem stepOp_written (cf : Config) (s : Store) (o : Op) (pc : PC) :
    (stepOp cf s o pc).1.written = s.written ∨
      ∃ n, pc = .cSetData n ∧ (stepOp cf s o pc).1.written = upd s.written n true := by
  cases o <;> cases pc <;>
    simp only [stepOp, stepCreate, stepDelete, stepUpdate, stepLookup, registryStage] <;>
    (repeat' split) <;> first | exact Or.inl rfl | exact Or.inl trivial | exact Or.inr ⟨_, rfl, rfl⟩

/-- How the stored records change in one step. -/
theorem stepOp_data (cf : Config) (s : Store) (o : Op) (pc : PC) :
    (stepOp cf s o pc).1.data = s.data ∨
    (∃ n r, pc = .cSetData n ∧ (stepOp cf s o pc).1.data = upd s.data n (some r)) ∨
    (∃ n st e th tp r, o = .upd n st e th tp ∧ pc = .uSet r ∧ (stepOp cf s o pc).1.data = upd s.data n (some r)) ∨
    (∃ n cl r, o = .del n cl ∧ pc = .dData r ∧ (stepOp cf s o pc).1.data = upd s.data n none) := by
  cases o <;> cases pc <;>
    simp only [stepOp, stepCreate, stepDelete, stepUpdate, stepLookup, registryStage] <;>
    (repeat' split) <;>
    first
      | exact Or.inl rfl
      | exact Or.inl trivial
      | exact Or.inr (Or.inl ⟨_, _, rfl, rfl⟩)
      | exact Or.inr (Or.inr (Or.inl ⟨_, _, _, _, _, _, rfl, rfl, rfl⟩))
      | exact Or.inr (Or.inr (Or.inr ⟨_, _, _, rfl, rfl, rfl⟩))

theorem Inv.written_mono {cf ops exts c} (_h : Inv cf ops exts c) (t : Nat) :
    ∀ n, c.st.written n = true → (stepThread cf c t).1.st.written n = true := by
  intro n hw
  cases hto : (c.th t).todo with
  | nil => rw [stepThread_nil cf c t hto]; exact hw
  | cons op rest =>
    rw [stepThread_st cf c t op rest hto]
    rcases stepOp_written cf c.st op (c.th t).pc with e | ⟨k, _, e⟩
    · rw [e]; exact hw
    · rw [e]
      by_cases e' : n = k
      · subst e'; simp
      · simp only [upd_other _ _ _ _ e']; exact hw

/-- The acting thread after its step. -/
theorem inflight_actor (cf : Config) (c : Cfg) (t : Nat) (o : Op) (rest : List Op) (hto : (c.th t).todo = o :: rest)
    (o' : Op) : InFlight ((stepThread cf c t).1.th t) o' ↔ ((stepOp cf c.st o (c.th t).pc).2.2 = none ∧ o' = o) := by
  rw [stepThread_self cf c t o rest hto]
  cases hr : (stepOp cf c.st o (c.th t).pc).2.2 with
  | some r =>
    simp only
    constructor
    · rintro ⟨_, _, h⟩; exact absurd rfl h
    · rintro ⟨h, _⟩; cases h
  | none =>
    simp only
    constructor
    · rintro ⟨r', h1, _⟩; injection h1 with h1 _; exact ⟨trivial, h1.symm⟩
    · rintro ⟨_, e⟩; subst e; exact ⟨rest, rfl, stepOp_none_pc cf c.st o' _ hr⟩

theorem inflight_head {th : Thread} {o o' : Op} {rest} (hto : th.todo = o :: rest) (h : InFlight th o') : o' = o ∧ th.pc ≠ .idle := by
  obtain ⟨r', h1, h2⟩ := h
  rw [hto] at h1; injection h1 with h1 _
  exact ⟨h1.symm, h2⟩

theorem createId_actor_keep (cf : Config) (c : Cfg) (t : Nat) (o : Op) (rest : List Op) (hto : (c.th t).todo = o :: rest)
    (n : Nat) (hid : (c.th t).pc.createId = some n) (hr : (stepOp cf c.st o (c.th t).pc).2.2 = none) :
    ((stepThread cf c t).1.th t).pc.createId = some n := by
  rw [stepThread_self cf c t o rest hto, hr]
  exact stepOp_createId_keep cf c.st o _ n hid hr

/-! ### when an operation returns what -/

theorem code_ne_1 : coreerrors.CodeInvalidParam ≠ coreerrors.CodeAlreadyExists := by decide
theorem code_ne_2 : coreerrors.CodeValidationError ≠ coreerrors.CodeAlreadyExists := by decide
theorem code_ne_3 : "BADPC" ≠ coreerrors.CodeAlreadyExists := by decide

/-- `CreateMapping` answers ALREADY_EXISTS only at the index claim, when the index entry exists. -/
theorem stepCreate_exists {cf s cl sub base th tp pc}
    (h : (stepCreate cf s cl sub base th tp pc).2.2 = some (.err coreerrors.CodeAlreadyExists)) :
    ∃ n k, pc = .cSetNX n ∧ s.index (sub ++ "." ++ base) = some k := by
  revert h
  cases pc <;> simp only [stepCreate] <;> (repeat' split) <;>
    simp [code_ne_1, code_ne_2, code_ne_3]
  rename_i k _
  exact ⟨k, by assumption⟩

/-- `UpdateMapping` answers ok only at the write. -/
theorem stepUpdate_ok {s n st e th tp pc}
    (h : (stepUpdate s n st e th tp pc).2.2 = some .ok) : ∃ r, pc = .uSet r := by
  revert h
  cases pc <;> simp only [stepUpdate] <;> (repeat' split) <;> simp

/-- A step of an update that returns anything but ok leaves the records alone; one that returns ok wrote its payload. -/
theorem stepUpdate_ret_data {s n st e th tp pc r}
    (h : (stepUpdate s n st e th tp pc).2.2 = some r) (hne : r ≠ .ok) : (stepUpdate s n st e th tp pc).1 = s := by
  revert h
  cases pc <;> simp only [stepUpdate] <;> (repeat' split) <;> simp <;> (try (intro h; exact absurd h.symm hne))

/-- Where `DeleteMapping` answers ok. -/
theorem stepDelete_ok {cf s n cl pc} (h : (stepDelete cf s n cl pc).2.2 = some .ok) :
    (pc = .dGet ∧ s.data n = none) ∨ pc = .dRelease ∨ (∃ r, pc = .dRemG r) := by
  revert h
  cases pc <;> simp only [stepDelete] <;> (repeat' split) <;> simp
  all_goals (first | assumption | skip)

end Tunnox.C19
namespace Tunnox.C19
open Gen

/-- A mapping number is born only by the claiming step of the thread that holds it, which continues. -/
theorem stepOp_newborn (cf : Config) (s : Store) (o : Op) (pc : PC) (n : Nat)
    (h : (stepOp cf s o pc).1.born n ≠ s.born n) :
    (stepOp cf s o pc).2.2 = none ∧ (stepOp cf s o pc).2.1.createId = some n := by
  revert h
  cases o <;> cases pc <;>
    simp only [stepOp, stepCreate, stepDelete, stepUpdate, stepLookup, registryStage] <;>
    (repeat' split) <;> (try simp) <;> (try (intro h; exact absurd rfl h))
  rename_i k _ _
  intro h
  by_cases e : n = k
  · simp [PC.createId, e]
  · exact absurd (upd_other _ _ _ _ e) h

theorem Inv.newborn {cf ops exts c} (_h : Inv cf ops exts c) (t n : Nat) {o}
    (hb : (stepThread cf c t).1.st.born n = some o) (hbo : c.st.born n = none) :
    ((stepThread cf c t).1.th t).pc.createId = some n := by
  cases hto : (c.th t).todo with
  | nil => rw [stepThread_nil cf c t hto] at hb; rw [hbo] at hb; cases hb
  | cons op rest =>
    rw [stepThread_st cf c t op rest hto] at hb
    have hne : (stepOp cf c.st op (c.th t).pc).1.born n ≠ c.st.born n := by rw [hb, hbo]; simp
    obtain ⟨h1, h2⟩ := stepOp_newborn cf c.st op _ n hne
    rw [stepThread_self cf c t op rest hto, h1]; exact h2

/-- Only a `CreateMapping` holds a mapping number. -/
theorem Inv.createId_is_create {cf ops exts c} (h : Inv cf ops exts c) {t n}
    (hid : (c.th t).pc.createId = some n) : ∃ cl sub base th tp rest, (c.th t).todo = .create cl sub base th tp :: rest := by
  have ht := h.thr t
  unfold TInv at ht
  cases hto : (c.th t).todo with
  | nil => rw [hto] at ht; rw [ht] at hid; simp [PC.createId] at hid
  | cons op rest =>
    rw [hto] at ht
    cases op with
    | create cl sub base th tp => exact ⟨cl, sub, base, th, tp, rest, rfl⟩
    | del _ _ => cases hpc : (c.th t).pc <;> rw [hpc] at ht hid <;> simp [PC.createId, LInv] at hid ht
    | upd _ _ _ _ _ => cases hpc : (c.th t).pc <;> rw [hpc] at ht hid <;> simp [PC.createId, LInv] at hid ht
    | look _ => cases hpc : (c.th t).pc <;> rw [hpc] at ht hid <;> simp [PC.createId, LInv] at hid ht

end Tunnox.C19
namespace Tunnox.C19
open Gen

theorem stepCreate_res {cf s cl sub base th tp pc r} (h : (stepCreate cf s cl sub base th tp pc).2.2 = some r) :
    (∃ n, r = .okId n) ∨ (∃ code, r = .err code) := by
  revert h
  cases pc <;> simp only [stepCreate] <;> (repeat' split) <;> simp <;>
    (intro h; first | exact Or.inl ⟨_, h.symm⟩ | exact Or.inr ⟨_, h.symm⟩)

theorem stepCreate_err_pc {cf s cl sub base th tp pc code}
    (h : (stepCreate cf s cl sub base th tp pc).2.2 = some (.err code)) :
    pc.createId = none ∨ ∃ n, pc = .cSetNX n := by
  revert h
  cases pc <;> simp only [stepCreate] <;> (repeat' split) <;> simp [PC.createId]

end Tunnox.C19
