import TunnoxModel.Spec.C07
/-! C07 helper lemmas: the registry invariant and its preservation by every step (repaired tree). -/
namespace Tunnox.C07

/-- The invariant tying the two registry maps, the transport flags and the SessionManager map. -/
structure Inv (s : St) : Prop where
  cm_lt : ∀ c o, s.connMap c = some o → o < s.nobj ∧ (s.obj o).connID = c ∧ c < s.n
  idx_reg : ∀ k o, s.idx k = some o → s.connMap (s.obj o).connID = some o
  idx_live : ∀ k o, s.idx k = some o → s.closed (s.obj o).connID = false
  idx_id : ∀ k o, s.idx k = some o → (s.obj o).auth = true ∧
    ((s.obj o).clientID = k ∨ ∃ p, s.pend (s.obj o).connID = some p ∧ p.oid = o)
  idx_inj : ∀ k k' o, s.idx k = some o → s.idx k' = some o → k = k'
  cm_s : ∀ c o, s.connMap c = some o → s.sconn c = true
  s_open : ∀ c, s.sconn c = true → s.opened c = true ∧ s.gone c = false
  open_s : ∀ c, s.opened c = true → s.sconn c = true ∨ s.gone c = true
  t_s : ∀ c, s.tconn c = true → s.sconn c = true
  gone_cl : ∀ c, s.gone c = true → s.closed c = true ∧ s.opened c = true
  ev_cl : ∀ c, s.evicted c = true → s.closed c = true
  pend_ok : ∀ c p, s.pend c = some p → p.oid < s.nobj ∧ (s.obj p.oid).connID = c

theorem inv_init (n cap : Nat) : Inv (init n cap) := by
  constructor <;> simp [init]

theorem inv_removeObj {s : St} (h : Inv s) (o : Nat) (ho : s.connMap (s.obj o).connID = some o) :
    Inv (removeObj .repaired s o) := by
  constructor <;> simp only [removeObj, unindex, upd] <;> grind [Inv]

theorem inv_removeConn {s : St} (h : Inv s) (c : Nat) : Inv (removeConn .repaired s c) := by
  unfold removeConn
  split
  · exact h
  · rename_i o ho
    exact inv_removeObj h o (by rw [(h.cm_lt c o ho).2.1]; exact ho)

theorem olderOf_spec (s : St) (acc : Option Nat) (c : Nat)
    (hacc : ∀ a, acc = some a → ∃ c', s.connMap c' = some a) :
    ∀ a, olderOf s acc c = some a → ∃ c', s.connMap c' = some a := by
  intro a
  unfold olderOf
  grind

theorem foldl_olderOf_spec (s : St) (l : List Nat) :
    ∀ acc, (∀ a, acc = some a → ∃ c', s.connMap c' = some a) →
      ∀ a, l.foldl (olderOf s) acc = some a → ∃ c', s.connMap c' = some a := by
  induction l with
  | nil => intro acc h a ha; exact h a ha
  | cons c l ih => intro acc h a ha; exact ih _ (olderOf_spec s acc c h) a ha

theorem oldest_spec (s : St) (o : Nat) (h : oldest s = some o) : ∃ c, s.connMap c = some o :=
  foldl_olderOf_spec s _ none (by simp) o h

theorem inv_evictForRoom {s : St} (h : Inv s) : Inv (evictForRoom .repaired s) := by
  unfold evictForRoom
  split
  · split
    · rename_i o ho
      obtain ⟨c, hc⟩ := oldest_spec s o ho
      exact inv_removeObj h o (by rw [(h.cm_lt c o hc).2.1]; exact hc)
    · exact h
  · exact h

theorem inv_insertNew {s : St} (h : Inv s) (c : Nat) (hc : s.connMap c = none) (hs : s.sconn c = true)
    (hn : c < s.n) : Inv (insertNew s c) := by
  constructor <;> simp only [insertNew, upd] <;> grind [Inv]


theorem evictForRoom_facts (s : St) :
    (evictForRoom .repaired s).n = s.n ∧ (evictForRoom .repaired s).nobj = s.nobj ∧
    (evictForRoom .repaired s).sconn = s.sconn ∧ (evictForRoom .repaired s).pend = s.pend ∧
    (evictForRoom .repaired s).obj = s.obj ∧
    (∀ c, s.connMap c = none → (evictForRoom .repaired s).connMap c = none) := by
  unfold evictForRoom
  split
  · split
    · simp [removeObj, upd]; grind
    · exact ⟨rfl, rfl, rfl, rfl, rfl, fun _ h => h⟩
  · exact ⟨rfl, rfl, rfl, rfl, rfl, fun _ h => h⟩

theorem inv_registerNew {s : St} (h : Inv s) (c : Nat) (hc : s.connMap c = none) (hs : s.sconn c = true)
    (hn : c < s.n) : Inv (registerNew .repaired s c) := by
  obtain ⟨h1, _, h3, _, _, h6⟩ := evictForRoom_facts s
  exact inv_insertNew (inv_evictForRoom h) c (h6 c hc) (by rw [h3]; exact hs) (by rw [h1]; exact hn)

theorem inv_ensureSt {s : St} (h : Inv s) (c : Nat) (hn : c < s.n) : Inv (ensureSt .repaired s c) := by
  unfold ensureSt
  split
  · exact h
  · rename_i hc
    split
    · rename_i hs; exact inv_registerNew h c hc hs hn
    · exact h

/-- what `ensureObj` returns is, in the state `ensureSt` produces, the registered object of `c` -/
theorem ensure_obj {s : St} (c o : Nat) (ho : ensureObj s c = some o) :
    (ensureSt .repaired s c).connMap c = some o ∧ (ensureSt .repaired s c).pend = s.pend := by
  obtain ⟨_, h2, _, h4, _, _⟩ := evictForRoom_facts s
  unfold ensureObj at ho
  unfold ensureSt
  cases hc : s.connMap c with
  | some o' =>
    rw [hc] at ho
    simp only at ho ⊢
    exact ⟨by rw [hc]; exact ho, trivial⟩
  | none =>
    rw [hc] at ho
    simp only at ho ⊢
    by_cases hs : s.sconn c = true
    · simp only [hs, if_true] at ho ⊢
      simp only [registerNew, insertNew, upd, h2, h4, if_true]
      exact ⟨ho, trivial⟩
    · simp [hs] at ho

/-- the auth handler's field writes together with "this handshake is now in flight" -/
theorem inv_setFields_setPend {s : St} (h : Inv s) (c o x : Nat) (ctl : Bool)
    (hreg : s.connMap c = some o) (hp : s.pend c = none) :
    Inv (setPend (setFields s o x) c (some ⟨o, ctl⟩)) := by
  have hc := h.cm_lt c o hreg
  constructor
  case idx_id =>
    intro k o' hk
    simp only [setPend, setFields, upd, apply_ite CC.connID, apply_ite CC.auth, apply_ite CC.clientID] at hk ⊢
    by_cases e : o' = o
    · subst e
      refine ⟨by simp, Or.inr ⟨⟨o', ctl⟩, ?_, rfl⟩⟩
      simp [hc.2.1]
    · have h0 := h.idx_id k o' hk
      simp only [e, if_false]
      refine ⟨h0.1, ?_⟩
      rcases h0.2 with h1 | ⟨p, hp1, hp2⟩
      · exact Or.inl h1
      · refine Or.inr ⟨p, ?_, hp2⟩
        have hne : (s.obj o').connID ≠ c := by
          intro hcc
          rw [hcc, hp] at hp1
          cases hp1
        simp [hne, hp1]
  all_goals
    simp only [setPend, setFields, upd, apply_ite CC.connID, apply_ite CC.auth, apply_ite CC.clientID]
    grind [Inv]

theorem inv_setPend_some {s : St} (h : Inv s) (c o : Nat) (ctl : Bool)
    (hreg : s.connMap c = some o) (hp : s.pend c = none) :
    Inv (setPend s c (some ⟨o, ctl⟩)) := by
  have hc := h.cm_lt c o hreg
  constructor
  case idx_id =>
    intro k o' hk
    simp only [setPend, upd] at hk ⊢
    have h0 := h.idx_id k o' hk
    refine ⟨h0.1, ?_⟩
    rcases h0.2 with h1 | ⟨p, hp1, hp2⟩
    · exact Or.inl h1
    · refine Or.inr ⟨p, ?_, hp2⟩
      have hne : (s.obj o').connID ≠ c := by
        intro hcc
        rw [hcc, hp] at hp1
        cases hp1
      simp [hne, hp1]
  all_goals
    simp only [setPend, upd]
    grind [Inv]

/-- the handshake leaves the gate: clear `pend`, then DropStaleIndex restores the identity clause -/
theorem inv_dropStale_clear {s : St} (h : Inv s) (c : Nat) (p : Pend) (hp : s.pend c = some p) :
    Inv (dropStale .repaired (setPend s c none) p.oid) := by
  have hc := h.pend_ok c p hp
  constructor <;> simp only [dropStale, setPend, upd] <;> grind [Inv]

theorem inv_updateAuth {s : St} (h : Inv s) (c x : Nat) (hcl : s.closed c = false) :
    Inv (updateAuth .repaired s c x) := by
  unfold updateAuth
  split
  · exact h
  · rename_i o ho
    have hc := h.cm_lt c o ho
    constructor <;>
      simp only [upd, apply_ite CC.connID, apply_ite CC.auth, apply_ite CC.clientID] <;> grind [Inv]

theorem removeConn_facts {s : St} (h : Inv s) (c : Nat) :
    (removeConn .repaired s c).obj = s.obj ∧ (removeConn .repaired s c).pend = s.pend ∧
    (∀ c', c' ≠ c → (removeConn .repaired s c).closed c' = s.closed c') := by
  unfold removeConn
  split
  · simp
  · rename_i o ho
    have := (h.cm_lt c o ho).2.1
    simp [removeObj, upd]
    grind


theorem inv_hsIndex {s : St} (h : Inv s) (p : Pend) (hcl : s.closed (s.obj p.oid).connID = false) :
    Inv (hsIndex .repaired s p) := by
  unfold hsIndex
  split
  · split
    · rename_i e he
      split
      · rename_i hne
        obtain ⟨h1, _, h3⟩ := removeConn_facts h (s.obj e).connID
        have hi := inv_removeConn h (s.obj e).connID
        exact inv_updateAuth hi _ _ (by rw [h3 _ (Ne.symm hne)]; exact hcl)
      · exact inv_updateAuth h _ _ hcl
    · exact inv_updateAuth h _ _ hcl
  · exact h

theorem dropStale_facts (s : St) (o : Nat) :
    (dropStale .repaired s o).obj = s.obj ∧ (dropStale .repaired s o).closed = s.closed := by
  simp [dropStale]

theorem inv_hsFinish {s : St} (h : Inv s) (c : Nat) (p : Pend) (hp : s.pend c = some p) :
    Inv (hsFinish .repaired (setPend s c none) c p) := by
  have hi := inv_dropStale_clear h c p hp
  have hc := (h.pend_ok c p hp).2
  unfold hsFinish
  split
  · exact hi
  · rename_i hno
    have hno' : (dropStale .repaired (setPend s c none) p.oid).closed c = false := by
      cases hx : (dropStale .repaired (setPend s c none) p.oid).closed c
      · rfl
      · exact absurd (Or.inl hx) hno
    refine inv_hsIndex hi p ?_
    have : (dropStale .repaired (setPend s c none) p.oid).obj = s.obj := by simp [dropStale, setPend]
    rw [this, hc]
    exact hno'

theorem inv_sweep {s : St} (h : Inv s) : Inv (sweep .repaired s) := by
  constructor <;> simp only [sweep, sweepIdx, staleReg] <;> grind [Inv]

theorem inv_closeConn {s : St} (h : Inv s) (c : Nat) : Inv (closeConn .repaired s c) := by
  unfold closeConn removeConn
  by_cases hs : s.sconn c = true
  · simp only [hs, if_true]
    cases hm : s.connMap c with
    | none => constructor <;> simp only [upd] <;> grind [Inv]
    | some o =>
      have hc := h.cm_lt c o hm
      constructor <;> simp only [removeObj, unindex, upd] <;> grind [Inv]
  · simp only [hs]
    cases hm : s.connMap c with
    | none => constructor <;> simp only [upd] <;> grind [Inv]
    | some o => exact absurd (h.cm_s c o hm) hs

theorem inv_unregister {s : St} (h : Inv s) (c : Nat) : Inv (unregister .repaired s c) := by
  unfold unregister
  split
  · exact h
  · rename_i o ho
    have hc := h.cm_lt c o ho
    constructor <;> simp only [unindex, upd] <;> grind [Inv]

theorem inv_setStale {s : St} (h : Inv s) (c : Nat) (b : Bool) : Inv (setStale s c b) := by
  unfold setStale
  split
  · exact h
  · constructor <;>
      simp only [upd, apply_ite CC.connID, apply_ite CC.auth, apply_ite CC.clientID] <;> grind [Inv]

theorem inv_reRegister {s : St} (h : Inv s) (c : Nat) (hn : c < s.n) (hs : s.sconn c = true) :
    Inv (reRegister .repaired s c) := by
  obtain ⟨h1, _, h3, _, _, _⟩ := evictForRoom_facts s
  have he := inv_evictForRoom h
  have hr := inv_removeConn he c
  unfold reRegister
  refine inv_insertNew hr c ?_ ?_ ?_
  · unfold removeConn
    cases hm : (evictForRoom .repaired s).connMap c with
    | none => simpa using hm
    | some o =>
      have := (he.cm_lt c o hm).2.1
      simp [removeObj, upd, this]
  · have : (removeConn .repaired (evictForRoom .repaired s) c).sconn = (evictForRoom .repaired s).sconn := by
      unfold removeConn; split <;> rfl
    rw [this, h3]; exact hs
  · have : (removeConn .repaired (evictForRoom .repaired s) c).n = (evictForRoom .repaired s).n := by
      unfold removeConn; split <;> rfl
    rw [this, h1]; exact hn

/-- the limit eviction inside Register closes only the oldest registered connection, never an unregistered one -/
theorem registerNew_closed {s : St} (h : Inv s) (c : Nat) (hc : s.connMap c = none) :
    (registerNew .repaired s c).closed c = s.closed c := by
  unfold registerNew insertNew evictForRoom
  simp only
  split
  · split
    · rename_i o ho
      obtain ⟨c', hc'⟩ := oldest_spec s o ho
      have := (h.cm_lt c' o hc').2.1
      simp only [removeObj, upd]
      have hne : c ≠ c' := by intro e; rw [e, hc'] at hc; cases hc
      simp [this, hne]
    · rfl
  · rfl

theorem inv_step {s : St} (h : Inv s) (op : Op) : Inv (step .repaired s op) := by
  cases op with
  | accept c =>
    simp only [step]
    split
    · constructor <;> simp only [upd] <;> grind [Inv]
    · split
      · constructor <;> simp only [upd] <;> grind [Inv]
      · exact h
  | hsFail c =>
    simp only [step]
    split
    · rename_i hc; exact inv_ensureSt h c hc.1
    · exact h
  | hsChal c ctl =>
    simp only [step]
    split
    · rename_i hc
      split
      · exact h
      · rename_i o ho
        obtain ⟨h1, h2⟩ := ensure_obj c o ho
        exact inv_setPend_some (inv_ensureSt h c hc.1) c o ctl h1 (by rw [h2]; exact hc.2)
    · exact h
  | hsAuth c x ctl =>
    simp only [step]
    split
    · rename_i hc
      split
      · exact h
      · rename_i o ho
        obtain ⟨h1, h2⟩ := ensure_obj c o ho
        exact inv_setFields_setPend (inv_ensureSt h c hc.1) c o x ctl h1 (by rw [h2]; exact hc.2)
    · exact h
  | hsFin c =>
    simp only [step]
    split
    · exact h
    · rename_i p hp; exact inv_hsFinish h c p hp
  | kick x c =>
    simp only [step, kickOld]
    split
    · exact h
    · rename_i o ho
      split
      · exact h
      · exact inv_removeObj h o (h.idx_reg x o ho)
  | sweep => exact inv_sweep h
  | age c => simp only [step]; split; exact inv_setStale h c true; exact h
  | beat c => simp only [step]; split; exact inv_setStale h c false; exact h
  | close c => simp only [step]; split; exact inv_closeConn h c; exact h
  | remove c => simp only [step]; split; exact inv_removeConn h c; exact h
  | unreg c => simp only [step]; split; exact inv_unregister h c; exact h
  | treg c =>
    simp only [step]
    split
    · constructor <;> simp only [upd] <;> grind [Inv]
    · exact h
  | brk c =>
    simp only [step]
    split
    · constructor <;> grind [Inv]
    · exact h
  | reg c x =>
    simp only [step]
    split
    · rename_i hc
      split
      · exact inv_reRegister h c hc.1 hc.2
      · split
        · rename_i hx
          have hi := inv_registerNew h c hx.2.1 hc.2 hc.1
          exact inv_updateAuth hi c x (by rw [registerNew_closed h c hx.2.1]; exact hx.2.2)
        · exact h
    · exact h

theorem inv_run (ops : List Op) : ∀ {s : St}, Inv s → Inv (run .repaired s ops) := by
  induction ops with
  | nil => intro s h; exact h
  | cons op ops ih => intro s h; exact ih (inv_step h op)

/-- the step left `n`, `opened`, `gone`, `pend` alone -/
def Same4 (s t : St) : Prop := t.n = s.n ∧ t.opened = s.opened ∧ t.gone = s.gone ∧ t.pend = s.pend

theorem Same4.refl (s : St) : Same4 s s := ⟨rfl, rfl, rfl, rfl⟩
theorem Same4.trans {s t u : St} (a : Same4 s t) (b : Same4 t u) : Same4 s u :=
  ⟨b.1.trans a.1, b.2.1.trans a.2.1, b.2.2.1.trans a.2.2.1, b.2.2.2.trans a.2.2.2⟩

theorem same4_removeObj (s : St) (o : Nat) : Same4 s (removeObj .repaired s o) := ⟨rfl, rfl, rfl, rfl⟩
theorem same4_removeConn (s : St) (c : Nat) : Same4 s (removeConn .repaired s c) := by
  unfold removeConn; split
  · exact Same4.refl s
  · exact same4_removeObj s _
theorem same4_evictForRoom (s : St) : Same4 s (evictForRoom .repaired s) := by
  unfold evictForRoom; split
  · split
    · exact same4_removeObj s _
    · exact Same4.refl s
  · exact Same4.refl s
theorem same4_insertNew (s : St) (c : Nat) : Same4 s (insertNew s c) := ⟨rfl, rfl, rfl, rfl⟩
theorem same4_ensureSt (s : St) (c : Nat) : Same4 s (ensureSt .repaired s c) := by
  unfold ensureSt; split
  · exact Same4.refl s
  · split
    · exact (same4_evictForRoom s).trans (same4_insertNew _ c)
    · exact Same4.refl s
theorem same4_setFields (s : St) (o x : Nat) : Same4 s (setFields s o x) := ⟨rfl, rfl, rfl, rfl⟩
theorem same4_updateAuth (s : St) (c x : Nat) : Same4 s (updateAuth .repaired s c x) := by
  unfold updateAuth; split
  · exact Same4.refl s
  · exact ⟨rfl, rfl, rfl, rfl⟩
theorem same4_dropStale (s : St) (o : Nat) : Same4 s (dropStale .repaired s o) := ⟨rfl, rfl, rfl, rfl⟩
theorem same4_hsIndex (s : St) (p : Pend) : Same4 s (hsIndex .repaired s p) := by
  unfold hsIndex; split
  · split
    · split
      · exact (same4_removeConn s _).trans (same4_updateAuth _ _ _)
      · exact same4_updateAuth _ _ _
    · exact same4_updateAuth _ _ _
  · exact Same4.refl s
theorem same4_hsFinish (s : St) (c : Nat) (p : Pend) : Same4 s (hsFinish .repaired s c p) := by
  unfold hsFinish; split
  · exact same4_dropStale s _
  · exact (same4_dropStale s _).trans (same4_hsIndex _ p)
theorem same4_kickOld (s : St) (x c : Nat) : Same4 s (kickOld .repaired s x c) := by
  unfold kickOld; split
  · exact Same4.refl s
  · split
    · exact Same4.refl s
    · exact same4_removeObj s _
theorem same4_setStale (s : St) (c : Nat) (b : Bool) : Same4 s (setStale s c b) := by
  unfold setStale; split
  · exact Same4.refl s
  · exact ⟨rfl, rfl, rfl, rfl⟩
theorem same4_unregister (s : St) (c : Nat) : Same4 s (unregister .repaired s c) := by
  unfold unregister; split
  · exact Same4.refl s
  · exact ⟨rfl, rfl, rfl, rfl⟩

/-- What one step does to `n`, the ghost sets and `pend`. -/
theorem step_frame (s : St) (op : Op) :
    (step .repaired s op).n = s.n ∧
    (∀ c, s.opened c = true → (step .repaired s op).opened c = true) ∧
    (∀ c, s.gone c = true → (step .repaired s op).gone c = true ∨ op = .accept c) ∧
    (∀ acc : Nat → Bool, (∀ c, s.pend c ≠ none → acc c = true) →
      ∀ c, (step .repaired s op).pend c ≠ none → pendStep acc op c = true) := by
  have key : ∀ t, Same4 s t →
      t.n = s.n ∧ (∀ c, s.opened c = true → t.opened c = true) ∧ (∀ c, s.gone c = true → t.gone c = true) ∧
      (∀ c, t.pend c ≠ none → s.pend c ≠ none) := by
    intro t ⟨a, b, c, d⟩
    exact ⟨a, by rw [b]; exact fun _ h => h, by rw [c]; exact fun _ h => h, by rw [d]; exact fun _ h => h⟩
  cases op with
  | accept c =>
    simp only [step, pendStep]
    split
    · simp only [upd]; grind [upd]
    · split
      · simp only [upd]; grind [upd]
      · grind [upd]
  | hsFail c =>
    simp only [step, pendStep]
    split
    · obtain ⟨a, b, c', d⟩ := key _ (same4_ensureSt s c); grind [upd]
    · grind [upd]
  | hsChal c ctl =>
    simp only [step, pendStep]
    split
    · split
      · grind [upd]
      · obtain ⟨a, b, c', d⟩ := key _ (same4_ensureSt s c)
        obtain ⟨_, _, _, e⟩ := same4_ensureSt s c
        simp only [setPend, upd, e]; grind [upd]
    · grind [upd]
  | hsAuth c x ctl =>
    simp only [step, pendStep]
    split
    · split
      · grind [upd]
      · rename_i o _
        obtain ⟨a, b, c', d⟩ := key _ ((same4_ensureSt s c).trans (same4_setFields _ o x))
        obtain ⟨_, _, _, e⟩ := (same4_ensureSt s c).trans (same4_setFields _ o x)
        simp only [setPend, upd, e]; grind [upd]
    · grind [upd]
  | hsFin c =>
    simp only [step, pendStep]
    split
    · grind [upd]
    · rename_i p hp
      obtain ⟨a, b, c', d⟩ := same4_hsFinish (setPend s c none) c p
      refine ⟨by rw [a]; rfl, ?_, ?_, ?_⟩
      · rw [b]; exact fun _ h => h
      · rw [c']; exact fun _ h => Or.inl h
      · intro acc hacc c1
        rw [d]
        simp only [setPend, upd]
        grind [upd]
  | kick x c => simp only [step, pendStep]; obtain ⟨a, b, c', d⟩ := key _ (same4_kickOld s x c); grind [upd]
  | sweep => simp only [step, pendStep, Tunnox.C07.sweep]; grind [upd]
  | age c => simp only [step, pendStep]; split; (obtain ⟨a, b, c', d⟩ := key _ (same4_setStale s c true); grind [upd]); grind [upd]
  | beat c => simp only [step, pendStep]; split; (obtain ⟨a, b, c', d⟩ := key _ (same4_setStale s c false); grind [upd]); grind [upd]
  | close c =>
    simp only [step, pendStep]
    split
    · simp only [closeConn]
      obtain ⟨a, b, c', d⟩ := same4_removeConn
        (if s.sconn c = true then { s with sconn := upd s.sconn c false, closed := upd s.closed c true } else s) c
      simp only [a, d, upd]
      split <;> grind [upd]
    · grind [upd]
  | remove c => simp only [step, pendStep]; split; (obtain ⟨a, b, c', d⟩ := key _ (same4_removeConn s c); grind [upd]); grind [upd]
  | unreg c => simp only [step, pendStep]; split; (obtain ⟨a, b, c', d⟩ := key _ (same4_unregister s c); grind [upd]); grind [upd]
  | treg c => simp only [step, pendStep]; split <;> grind [upd]
  | brk c => simp only [step, pendStep]; split <;> grind [upd]
  | reg c x =>
    simp only [step, pendStep]
    split
    · split
      · obtain ⟨a, b, c', d⟩ := key _ (((same4_evictForRoom s).trans (same4_removeConn _ c)).trans (same4_insertNew _ c))
        exact ⟨a, b, fun c h => Or.inl (c' c h), fun acc hacc c hc => hacc c (d c hc)⟩
      · split
        · obtain ⟨a, b, c', d⟩ := key _ (((same4_evictForRoom s).trans (same4_insertNew _ c)).trans (same4_updateAuth _ c x))
          exact ⟨a, b, fun c h => Or.inl (c' c h), fun acc hacc c hc => hacc c (d c hc)⟩
        · grind [upd]
    · grind [upd]


theorem run_n (ops : List Op) : ∀ s : St, (run .repaired s ops).n = s.n := by
  induction ops with
  | nil => intro s; rfl
  | cons op ops ih => intro s; exact (ih _).trans (step_frame s op).1

/-- a handshake in flight in the model is one the history shows as in flight -/
theorem run_pend (ops : List Op) : ∀ (s : St) (acc : Nat → Bool), (∀ c, s.pend c ≠ none → acc c = true) →
    ∀ c, (run .repaired s ops).pend c ≠ none → ops.foldl pendStep acc c = true := by
  induction ops with
  | nil => intro s acc h c hc; exact h c hc
  | cons op ops ih =>
    intro s acc h c hc
    exact ih (step .repaired s op) (pendStep acc op) ((step_frame s op).2.2.2 acc h) c hc

theorem closeConn_gone (s : St) (c : Nat) : (closeConn .repaired s c).gone c = (s.gone c || s.opened c) := by
  simp [closeConn, upd]

theorem step_syn (n : Nat) (s : St) (acc : (Nat → Bool) × (Nat → Bool)) (op : Op) (hn : s.n = n)
    (h1 : ∀ c, acc.1 c = true → s.opened c = true) (h2 : ∀ c, acc.2 c = true → s.gone c = true) :
    (∀ c, (synStep n acc op).1 c = true → (step .repaired s op).opened c = true) ∧
    (∀ c, (synStep n acc op).2 c = true → (step .repaired s op).gone c = true) := by
  obtain ⟨_, fo, fg, _⟩ := step_frame s op
  cases op with
  | accept c =>
    constructor
    · intro c' h
      simp only [synStep] at h
      split at h
      · simp only [upd] at h
        by_cases e : c' = c
        · subst e
          simp only [step]
          split
          · simp [upd]
          · rename_i hno
            have ho : s.opened c' = true := by
              cases ho : s.opened c'
              · exact absurd ⟨by omega, ho⟩ hno
              · rfl
            split <;> exact ho
        · simp only [e, if_false] at h
          exact fo c' (h1 c' h)
      · exact fo c' (h1 c' h)
    · intro c' h
      simp only [synStep] at h
      split at h
      · simp only [upd] at h
        by_cases e : c' = c
        · simp [e] at h
        · simp only [e, if_false] at h
          rcases fg c' (h2 c' h) with g | g
          · exact g
          · injection g with g; exact absurd g.symm e
      · rcases fg c' (h2 c' h) with g | g
        · exact g
        · rename_i hnc
          injection g with g
          -- c ≥ n: the step is a no-op
          have hlt : ¬ c < s.n := by omega
          have hg := h2 c' h
          simp only [step]
          simp [hlt, hg]
  | close c =>
    have fg' : ∀ c', s.gone c' = true → (step .repaired s (.close c)).gone c' = true :=
      fun c' h => (fg c' h).resolve_right (by simp)
    refine ⟨fun c' h => fo c' (h1 c' (by
      revert h; simp only [synStep]; split <;> exact fun h => h)), ?_⟩
    intro c' h
    simp only [synStep] at h
    split at h
    · rename_i hc
      simp only [upd] at h
      by_cases e : c' = c
      · subst e
        simp only [step]
        rw [if_pos (by omega), closeConn_gone, h1 c' hc.2]
        simp
      · simp only [e, if_false] at h
        exact fg' c' (h2 c' h)
    · exact fg' c' (h2 c' h)
  | _ => exact ⟨fun c h => fo c (h1 c h), fun c h => (fg c (h2 c h)).resolve_right (by simp)⟩

/-- `accept c … close c` in the history ⇒ the model's ghost `gone c` -/
theorem run_gone (n : Nat) (ops : List Op) : ∀ (s : St) (acc : (Nat → Bool) × (Nat → Bool)), s.n = n →
    (∀ c, acc.1 c = true → s.opened c = true) → (∀ c, acc.2 c = true → s.gone c = true) →
    ∀ c, (ops.foldl (synStep n) acc).2 c = true → (run .repaired s ops).gone c = true := by
  induction ops with
  | nil => intro s acc _ _ h2 c hc; exact h2 c hc
  | cons op ops ih =>
    intro s acc hn h1 h2 c hc
    obtain ⟨a, b⟩ := step_syn n s acc op hn h1 h2
    exact ih (step .repaired s op) (synStep n acc op) ((step_frame s op).1.trans hn) a b c hc

/-! ## From the invariant to the observation predicate -/


theorem cliAt_obsOf (s : St) (m i : Nat) (hi : i < m) : (obsOf s m).cliAt (i + 1) = cliRes s (i + 1) := by
  simp [Obs.cliAt, obsOf, hi]

theorem connAt_obsOf (s : St) (m c : Nat) (hc : c < s.n) : (obsOf s m).connAt c = connRes s c := by
  simp [Obs.connAt, obsOf, hc]

theorem filter_connAt (s : St) (m : Nat) (f : ConnRes → Bool) :
    (List.range s.n).filter (fun c => f ((obsOf s m).connAt c)) = (List.range s.n).filter (fun c => f (connRes s c)) := by
  apply List.filter_congr
  intro c hc
  rw [connAt_obsOf s m c (List.mem_range.mp hc)]

theorem okCounts_obsOf (s : St) (m : Nat) : okCounts s.n (obsOf s m) = true := by
  simp only [okCounts, filter_connAt s m regB, filter_connAt s m (fun r => r.inS), filter_connAt s m (fun r => r.inT),
    filter_connAt s m authB]
  simp [obsOf]




theorem okClient_obsOf {s : St} (h : Inv s) (m : Nat) (pendOK gone : Nat → Bool)
    (hp : ∀ c, s.pend c ≠ none → pendOK c = true) (hg : ∀ c, gone c = true → s.gone c = true)
    (i : Nat) (hi : i < m) : okClient s.n pendOK gone (obsOf s m) (i + 1) = true := by
  unfold okClient
  rw [cliAt_obsOf s m i hi]
  unfold cliRes
  cases hx : s.idx (i + 1) with
  | none => rfl
  | some o =>
    have hreg := h.idx_reg _ o hx
    have hlt := h.cm_lt _ o hreg
    have hlive := h.idx_live _ o hx
    have hid := h.idx_id _ o hx
    have hs := h.cm_s _ o hreg
    have hng : gone (s.obj o).connID = false := by
      cases hgg : gone (s.obj o).connID
      · rfl
      · have := (h.s_open _ hs).2
        rw [hg _ hgg] at this
        cases this
    have hpo : ((s.obj o).clientID == i + 1 || pendOK (s.obj o).connID) = true := by
      rcases hid.2 with e | ⟨p, hp1, _⟩
      · simp [e]
      · rw [hp _ (by rw [hp1]; simp)]; simp
    simp only [connAt_obsOf s m _ hlt.2.2]
    simp [connRes, hreg, hlt.2.2, hid.1, hlive, hs, hng, hpo]

theorem injective_obsOf {s : St} (h : Inv s) (m : Nat) : injective m (obsOf s m) = true := by
  unfold injective
  rw [List.all_eq_true]
  intro i hi
  rw [List.all_eq_true]
  intro j hj
  rw [cliAt_obsOf s m i (List.mem_range.mp hi), cliAt_obsOf s m j (List.mem_range.mp hj)]
  unfold cliRes
  cases hx : s.idx (i + 1) with
  | none => rfl
  | some o =>
    cases hy : s.idx (j + 1) with
    | none => rfl
    | some o' =>
      simp only [Bool.or_eq_true, bne_iff_ne, ne_eq, beq_iff_eq]
      by_cases e : (s.obj o).connID = (s.obj o').connID
      · right
        have h1 := h.idx_reg _ o hx
        have h2 := h.idx_reg _ o' hy
        rw [e, h2] at h1
        have : o' = o := by injection h1
        subst this
        have := h.idx_inj _ _ _ hx hy
        omega
      · left; exact e

theorem okGone_obsOf {s : St} (h : Inv s) (m c : Nat) (hc : c < s.n) (hg : s.gone c = true) :
    okGone (obsOf s m) c = true := by
  have hs : s.sconn c = false := by
    cases hss : s.sconn c
    · rfl
    · have := (h.s_open c hss).2; rw [hg] at this; cases this
  have hm : s.connMap c = none := by
    cases hmm : s.connMap c with
    | none => rfl
    | some o => have := h.cm_s c o hmm; rw [hs] at this; cases this
  have ht : s.tconn c = false := by
    cases htt : s.tconn c
    · rfl
    · have := h.t_s c htt; rw [hs] at this; cases this
  unfold okGone
  rw [connAt_obsOf s m c hc]
  simp [connRes, hm, hs, ht, (h.gone_cl c hg).1, obsOf, authB]

theorem holdsWith_of_inv {s : St} (h : Inv s) (m : Nat) (pendOK gone evicted : Nat → Bool)
    (hp : ∀ c, s.pend c ≠ none → pendOK c = true) (hg : ∀ c, gone c = true → s.gone c = true)
    (he : ∀ c, evicted c = true → s.evicted c = true) :
    holdsWith s.n m pendOK gone evicted (obsOf s m) = true := by
  unfold holdsWith
  simp only [Bool.and_eq_true]
  refine ⟨⟨⟨⟨⟨⟨⟨?_, ?_⟩, ?_⟩, ?_⟩, ?_⟩, ?_⟩, okCounts_obsOf s m⟩, by simp [okAlt, obsOf]⟩
  · simp [obsOf]
  · simp [obsOf]
  · rw [List.all_eq_true]; intro i hi; exact okClient_obsOf h m pendOK gone hp hg i (List.mem_range.mp hi)
  · exact injective_obsOf h m
  · rw [List.all_eq_true]
    intro c hc
    cases hgc : gone c
    · rfl
    · simp [okGone_obsOf h m c (List.mem_range.mp hc) (hg c hgc)]
  · rw [List.all_eq_true]
    intro c hc
    cases hec : evicted c
    · rfl
    · rw [connAt_obsOf s m c (List.mem_range.mp hc)]
      simp [connRes, h.ev_cl c (he c hec)]



theorem pendSyn_complete (ops : List Op) : ∀ acc : Nat → Bool, completeOps ops = true →
    ∀ c, ops.foldl pendStep acc c = true → acc c = true := by
  fun_induction completeOps ops with
  | case1 => intro acc _ c h; exact h
  | case2 c x ctl c' rest ih =>
    intro acc hc c0 h
    simp only [Bool.and_eq_true, beq_iff_eq] at hc
    have := ih _ hc.2 c0 h
    simp only [pendStep, upd] at this
    grind
  | case3 c ctl c' rest ih =>
    intro acc hc c0 h
    simp only [Bool.and_eq_true, beq_iff_eq] at hc
    have := ih _ hc.2 c0 h
    simp only [pendStep, upd] at this
    grind
  | case4 => intro acc hc; cases hc
  | case5 => intro acc hc; cases hc
  | case6 op rest h1 h2 h3 h4 ih =>
    intro acc hc c0 h
    have := ih _ hc c0 h
    cases op <;> simp only [pendStep, upd] at this <;> grind


/-! ## Read loops (adapter mode) -/

theorem inv_settle {s : St} (h : Inv s) : Inv (settle s) := by
  constructor <;> simp only [settle, dead] <;> grind [Inv]

theorem inv_stepAdp {s : St} (h : Inv s) (op : Op) : Inv (stepAdp .repaired s op) :=
  inv_settle (inv_step h op)

theorem inv_runAdp (fops : List FOp) : ∀ {s : St}, Inv s → Inv (runAdp .repaired s fops) := by
  unfold runAdp
  induction (fops.map Prod.fst) with
  | nil => intro s h; exact h
  | cons op ops ih => intro s h; exact ih (inv_stepAdp h op)

/-- after every adapter-mode step each connection whose loop must have ended is torn down -/
def Settled (s : St) : Prop := ∀ c, dead s c = true → s.gone c = true

theorem settled_settle (s : St) : Settled (settle s) := by
  intro c
  simp only [settle, dead]
  grind

theorem settle_frame (s : St) :
    (settle s).n = s.n ∧ (settle s).pend = s.pend ∧ (settle s).opened = s.opened ∧ (settle s).broken = s.broken :=
  ⟨rfl, rfl, rfl, rfl⟩

theorem runAdp_n (fops : List FOp) : ∀ s : St, (runAdp .repaired s fops).n = s.n := by
  unfold runAdp
  induction (fops.map Prod.fst) with
  | nil => intro s; rfl
  | cons op ops ih => intro s; exact (ih _).trans (step_frame s op).1

theorem runAdp_pend (fops : List FOp) : ∀ (s : St) (acc : Nat → Bool), (∀ c, s.pend c ≠ none → acc c = true) →
    ∀ c, (runAdp .repaired s fops).pend c ≠ none → (fops.map Prod.fst).foldl pendStep acc c = true := by
  unfold runAdp
  induction (fops.map Prod.fst) with
  | nil => intro s acc h c hc; exact h c hc
  | cons op ops ih =>
    intro s acc h c hc
    exact ih (stepAdp .repaired s op) (pendStep acc op) ((step_frame s op).2.2.2 acc h) c hc

theorem runAdp_settled (fops : List FOp) (hne : fops ≠ []) : ∀ s : St, Settled (runAdp .repaired s fops) := by
  unfold runAdp
  cases hm : fops.map Prod.fst with
  | nil => cases fops <;> simp_all
  | cons op ops =>
    clear hm hne
    induction ops generalizing op with
    | nil => intro s; exact settled_settle _
    | cons op' ops ih => intro s; exact ih op' (stepAdp .repaired s op)

end Tunnox.C07
