import TunnoxModel.Proofs.C17
/-! C17, invariant B: count-then-create inside one per-instance mutex (`code`, `mapq`). -/
namespace Tunnox.C17

/-- Facts about one thread when every request goes through instance `I`. -/
structure TOk (P : Proto) (limit I occLen : Nat) (locks : List Nat) (t : Thread) : Prop where
  inst : t.ops ≠ [] → t.inst = I
  held : t.pc ≠ .idle → t.inst = I ∧ I ∈ locks
  cnt : ∀ snap k, t.pc = .counting snap k → occLen ≤ snap
  pas : ∀ snap k, t.pc = .passed snap k → occLen ≤ snap ∧ full P limit snap = false

structure InvB (P : Proto) (limit pre I : Nat) (c : Cfg) : Prop where
  base : Base P.zeroUnl limit pre c
  thr : ∀ i, TOk P limit I c.occ.length c.locks (c.threads i)
  excl : ∀ i j, (c.threads i).pc ≠ .idle → (c.threads j).pc ≠ .idle → i = j

/-- One thread, the occupancy and the lock set change; the other threads keep their facts. -/
theorem invB_upd {P : Proto} {limit pre I : Nat} {c : Cfg} (h : InvB P limit pre I c) (tid : Nat) (t' : Thread)
    (c' : Cfg) (hb : Base P.zeroUnl limit pre c') (hthr : c'.threads = upd c.threads tid t')
    (ht' : TOk P limit I c'.occ.length c'.locks t')
    (hother : ∀ j, j ≠ tid → (c.threads j).pc ≠ .idle → c'.occ.length ≤ c.occ.length ∧ I ∈ c'.locks)
    (hex : t'.pc ≠ .idle → ∀ j, j ≠ tid → (c.threads j).pc = .idle) : InvB P limit pre I c' := by
  refine ⟨hb, ?_, ?_⟩
  · intro i
    rw [hthr]
    by_cases hi : i = tid
    · subst hi; rw [upd_self]; exact ht'
    · rw [upd_ne _ _ _ _ hi]
      have old := h.thr i
      refine ⟨old.inst, ?_, ?_, ?_⟩
      · intro hpc; exact ⟨(old.held hpc).1, (hother i hi hpc).2⟩
      · intro snap k hpc
        have hne : (c.threads i).pc ≠ .idle := by rw [hpc]; simp
        exact Nat.le_trans (hother i hi hne).1 (old.cnt snap k hpc)
      · intro snap k hpc
        have hne : (c.threads i).pc ≠ .idle := by rw [hpc]; simp
        exact ⟨Nat.le_trans (hother i hi hne).1 (old.pas snap k hpc).1, (old.pas snap k hpc).2⟩
  · intro i j hi hj
    rw [hthr] at hi hj
    by_cases e1 : i = tid
    · by_cases e2 : j = tid
      · rw [e1, e2]
      · subst e1
        rw [upd_self] at hi
        rw [upd_ne _ _ _ _ e2] at hj
        exact absurd (hex hi j e2) hj
    · by_cases e2 : j = tid
      · subst e2
        rw [upd_self] at hj
        rw [upd_ne _ _ _ _ e1] at hi
        exact absurd (hex hj i e1) hi
      · rw [upd_ne _ _ _ _ e1] at hi
        rw [upd_ne _ _ _ _ e2] at hj
        exact h.excl i j hi hj

/-- The stepping thread is the one inside the critical section: everybody else is idle. -/
theorem others_idle {P : Proto} {limit pre I : Nat} {c : Cfg} (h : InvB P limit pre I c) (tid : Nat)
    (hpc : (c.threads tid).pc ≠ .idle) : ∀ j, j ≠ tid → (c.threads j).pc = .idle := by
  intro j hj
  apply Classical.byContradiction
  intro hne
  exact hj (h.excl j tid hne hpc)

theorem idleThread_ok {P : Proto} {limit I n : Nat} {locks : List Nat} (t t' : Thread)
    (hpc : t'.pc = .idle) (hinst : t'.inst = t.inst) (hops : t'.ops ≠ [] → t.ops ≠ [])
    (ho : t.ops ≠ [] → t.inst = I) : TOk P limit I n locks t' := by
  refine ⟨?_, ?_, ?_, ?_⟩
  · intro hh; rw [hinst]; exact ho (hops hh)
  · intro hh; exact absurd hpc hh
  · intro s k hh; rw [hpc] at hh; cases hh
  · intro s k hh; rw [hpc] at hh; cases hh

theorem tail_ne_nil {α} (l : List α) (h : l.tail ≠ []) : l ≠ [] := by
  intro e; rw [e] at h; exact h rfl

/-- Refusal inside the critical section. -/
theorem invB_refuse {P : Proto} {limit pre I : Nat} {c : Cfg} (h : InvB P limit pre I c) (tid : Nat)
    (hpc : (c.threads tid).pc ≠ .idle) : InvB P limit pre I (refuseCfg P c tid) := by
  have hid := others_idle h tid hpc
  apply invB_upd h tid (finishOp (c.threads tid)) _ (base_refuse P h.base tid) rfl
  · exact idleThread_ok (c.threads tid) _ rfl rfl (fun hh => tail_ne_nil _ hh) (h.thr tid).inst
  · intro j hj hne; exact absurd (hid j hj) hne
  · intro hh; exact absurd rfl hh

theorem invB_admit {P : Proto} {limit pre I : Nat} {c : Cfg} (h : InvB P limit pre I c) (tid : Nat)
    (hpc : (c.threads tid).pc ≠ .idle) (hcap : capOk P.zeroUnl limit (c.occ.length + 1) = true) :
    InvB P limit pre I (admitCfg P c tid c.occ none) := by
  have hid := others_idle h tid hpc
  apply invB_upd h tid { finishOp (c.threads tid) with own := some c.next } _ (base_admit P h.base tid hcap) rfl
  · exact idleThread_ok (c.threads tid) _ rfl rfl (fun hh => tail_ne_nil _ hh) (h.thr tid).inst
  · intro j hj hne; exact absurd (hid j hj) hne
  · intro hh; exact absurd rfl hh

/-- An intermediate step of the thread inside the critical section. -/
theorem invB_stp_in {P : Proto} {limit pre I : Nat} {c : Cfg} (h : InvB P limit pre I c) (tid : Nat) (pc' : PC)
    (hpc : (c.threads tid).pc ≠ .idle)
    (hc : ∀ snap k, pc' = .counting snap k → c.occ.length ≤ snap)
    (hp : ∀ snap k, pc' = .passed snap k → c.occ.length ≤ snap ∧ full P limit snap = false) :
    InvB P limit pre I (stpCfg c tid { c.threads tid with pc := pc' } c.locks) := by
  have hid := others_idle h tid hpc
  have old := h.thr tid
  apply invB_upd h tid { c.threads tid with pc := pc' } _ (base_stp h.base tid _ _) rfl
  · exact ⟨old.inst, fun _ => old.held hpc, hc, hp⟩
  · intro j hj hne; exact absurd (hid j hj) hne
  · intro _; exact hid

theorem invB_check {P : Proto} {limit pre I : Nat} {c : Cfg} (h : InvB P limit pre I c) (tid snap : Nat)
    (hpc : (c.threads tid).pc ≠ .idle) (hs : c.occ.length ≤ snap) :
    InvB P limit pre I (checkStep P limit c tid snap) := by
  unfold checkStep
  cases hfull : full P limit snap with
  | true => simpa using invB_refuse h tid hpc
  | false =>
    simp only [Bool.false_eq_true, if_false]
    apply invB_stp_in h tid _ hpc
    · intro s k hh; cases hh
    · intro s k hh
      simp only [PC.passed.injEq] at hh
      rw [← hh.1]; exact ⟨hs, hfull⟩

theorem invB_step {P : Proto} {limit pre I : Nat} {c : Cfg} (h : InvB P limit pre I c) (tid : Nat)
    (hm : P.mutex = true) (he : P.early = true) (hf : P.final = .plain) :
    InvB P limit pre I (stepThread P limit c tid) := by
  have old := h.thr tid
  unfold stepThread
  split
  · exact h
  · -- release
    rename_i hops
    have hne : (c.threads tid).ops ≠ [] := by rw [hops]; simp
    split
    · apply invB_upd h tid { finishOp (c.threads tid) with own := none } _ (base_nop h.base tid) rfl
      · exact idleThread_ok (c.threads tid) _ rfl rfl (fun hh => tail_ne_nil _ hh) old.inst
      · intro j _ hj; exact ⟨Nat.le_refl _, ((h.thr j).held hj).2⟩
      · intro hh; exact absurd rfl hh
    · rename_i it _
      by_cases hin : it ∈ c.occ
      · simp only [hin, if_true]
        apply invB_upd h tid { finishOp (c.threads tid) with own := none } _ (base_rel h.base tid it _ hin) rfl
        · exact idleThread_ok (c.threads tid) _ rfl rfl (fun hh => tail_ne_nil _ hh) old.inst
        · intro j _ hj; exact ⟨erase_length_le _ _, ((h.thr j).held hj).2⟩
        · intro hh; exact absurd rfl hh
      · simp only [hin, if_false]
        apply invB_upd h tid { finishOp (c.threads tid) with own := none } _ (base_nop h.base tid) rfl
        · exact idleThread_ok (c.threads tid) _ rfl rfl (fun hh => tail_ne_nil _ hh) old.inst
        · intro j _ hj; exact ⟨Nat.le_refl _, ((h.thr j).held hj).2⟩
        · intro hh; exact absurd rfl hh
  · -- admit
    rename_i hops
    have hne : (c.threads tid).ops ≠ [] := by rw [hops]; simp
    have hI : (c.threads tid).inst = I := old.inst hne
    split
    · -- idle: take the mutex or wait
      rename_i hpc
      simp only [hm, if_true]
      by_cases hl : (c.threads tid).inst ∈ c.locks
      · simp only [hl, if_true]
        exact ⟨base_blk h.base tid, h.thr, h.excl⟩
      · simp only [hl, if_false]
        have hfree : ∀ j, (c.threads j).pc = .idle := by
          intro j
          apply Classical.byContradiction
          intro hj
          have := ((h.thr j).held hj).2
          rw [← hI] at this
          exact hl this
        apply invB_upd h tid { c.threads tid with pc := .locked } _ (base_stp h.base tid _ _) rfl
        · refine ⟨old.inst, fun _ => ⟨hI, ?_⟩, ?_, ?_⟩
          · simp only [stpCfg, hI]; exact List.mem_cons_self
          · intro s k hh; cases hh
          · intro s k hh; cases hh
        · intro j _ hj; exact absurd (hfree j) hj
        · intro _ j _; exact hfree j
    · -- locked: read
      rename_i hpc
      have hni : (c.threads tid).pc ≠ .idle := by rw [hpc]; simp
      unfold readStep
      simp only [he, if_true]
      by_cases hc : P.cnt c.occ.length = 0
      · simp only [hc, if_true]; exact invB_check h tid _ hni (Nat.le_refl _)
      · simp only [hc, if_false]
        apply invB_stp_in h tid _ hni
        · intro s k hh
          simp only [PC.counting.injEq] at hh
          rw [← hh.1]; exact Nat.le_refl _
        · intro s k hh; cases hh
    · -- counting
      rename_i snap k hpc
      have hni : (c.threads tid).pc ≠ .idle := by rw [hpc]; simp
      have hs := old.cnt snap k hpc
      by_cases hk : k ≤ 1
      · simp only [hk, if_true]; exact invB_check h tid snap hni hs
      · simp only [hk, if_false]
        apply invB_stp_in h tid _ hni
        · intro s k' hh
          simp only [PC.counting.injEq] at hh
          rw [← hh.1]; exact hs
        · intro s k' hh; cases hh
    · -- passed
      rename_i snap k hpc
      have hni : (c.threads tid).pc ≠ .idle := by rw [hpc]; simp
      have hs := old.pas snap k hpc
      split
      · unfold finalStep
        simp only [hf]
        apply invB_admit h tid hni
        exact capOk_mono _ _ _ _ (capOk_succ_of_not_full P limit snap hs.2) (Nat.succ_le_succ hs.1)
      · apply invB_stp_in h tid _ hni
        · intro s k' hh; cases hh
        · intro s k' hh
          simp only [PC.passed.injEq] at hh
          rw [← hh.1]; exact hs

theorem invB_run {P : Proto} {limit pre I : Nat} (hm : P.mutex = true) (he : P.early = true) (hf : P.final = .plain)
    (σ : List Nat) (c : Cfg) (h : InvB P limit pre I c) : InvB P limit pre I (run P limit c σ) := by
  induction σ generalizing c with
  | nil => exact h
  | cons t r ih =>
    simp only [run, List.foldl_cons]
    exact ih _ (invB_step h t hm he hf)

theorem invB_init (P : Proto) (limit pre I : Nat) (progs : List (List Op))
    (h : capOk P.zeroUnl limit pre = true) :
    InvB P limit pre I (init pre (progs.map (fun p => (I, p)))) := by
  refine ⟨base_init _ _ _ _ h, ?_, ?_⟩
  · intro i
    simp only [init, mkThreads]
    cases hi : (progs.map (fun p => (I, p)))[i]? with
    | none =>
      exact idleThread_ok (P := P) (limit := limit) ⟨0, [], .idle, none⟩ ⟨0, [], .idle, none⟩ rfl rfl (fun hh => hh)
        (fun hh => absurd rfl hh)
    | some p =>
      simp only [mkThread]
      rw [List.getElem?_map] at hi
      cases hp : progs[i]? with
      | none => simp [hp] at hi
      | some q =>
        simp [hp] at hi
        exact idleThread_ok (P := P) (limit := limit) ⟨p.1, p.2, .idle, none⟩ ⟨p.1, p.2, .idle, none⟩ rfl rfl (fun hh => hh)
          (fun _ => by rw [← hi])
  · intro i j hi
    simp only [init, mkThreads] at hi
    split at hi <;> simp [mkThread] at hi

end Tunnox.C17
