import TunnoxModel.Proofs.C17
/-! C17, invariant B: count-then-create inside one per-instance mutex (`code`, `mapq`), with
requests queueing up in `Lock()` and the FIFO hand-over of `Unlock()`. -/
namespace Tunnox.C17

/-- The thread is inside the critical section (holds the mutex). -/
def inside : PC → Bool
  | .idle => false
  | .waiting => false
  | .revoking _ => false
  | _ => true

/-- Active items that the scan has still ahead of it. -/
def ahead (rest occ : List Nat) : Nat := (occ.filter (fun x => decide (x ∈ rest))).length

theorem ahead_nil (occ : List Nat) : ahead [] occ = 0 := by simp [ahead]

theorem ahead_all (idx occ : List Nat) (h : ∀ x ∈ occ, x ∈ idx) : ahead idx occ = occ.length := by
  unfold ahead
  rw [List.filter_eq_self.mpr]
  intro x hx
  simpa using h x hx

theorem ahead_cons (e : Nat) (r : List Nat) : ∀ occ : List Nat, occ.Nodup →
    ahead (e :: r) occ ≤ ahead r occ + (if e ∈ occ then 1 else 0) := by
  intro occ
  induction occ with
  | nil => intro _; simp [ahead]
  | cons a t ih =>
    intro hnd
    have hat := (List.nodup_cons.mp hnd).1
    have ih' := ih (List.nodup_cons.mp hnd).2
    unfold ahead at *
    rw [List.filter_cons, List.filter_cons]
    by_cases hae : a = e
    · subst hae
      have h1 : decide (a ∈ a :: r) = true := by simp
      have h2 : a ∈ a :: t := List.mem_cons_self
      simp only [hat, if_false] at ih'
      rw [h1]
      simp only [if_true, List.length_cons, h2]
      by_cases har : a ∈ r
      · simp only [har, decide_true, if_true, List.length_cons]; omega
      · simp only [har, decide_false, Bool.false_eq_true, if_false]; omega
    · have hea : ¬ e = a := fun x => hae x.symm
      have h1 : decide (a ∈ e :: r) = decide (a ∈ r) := by simp [hae]
      have h2 : (e ∈ a :: t) ↔ e ∈ t := by simp [hea]
      rw [h1]
      simp only [h2]
      by_cases har : a ∈ r
      · simp only [har, decide_true, if_true, List.length_cons]; omega
      · simp only [har, decide_false, Bool.false_eq_true, if_false]; omega

theorem scan_advance {occ : List Nat} (hnd : occ.Nodup) (e : Nat) (r : List Nat) (acc : Nat)
    (h : occ.length ≤ acc + ahead (e :: r) occ) :
    occ.length ≤ (acc + (if e ∈ occ then 1 else 0)) + ahead r occ := by
  have := ahead_cons e r occ hnd
  omega

theorem filter_erase_le (p : Nat → Bool) (j : Nat) : ∀ l : List Nat, (l.filter p).length ≤ ((l.erase j).filter p).length + 1 := by
  intro l
  induction l with
  | nil => simp
  | cons a t ih =>
    by_cases haj : a = j
    · subst haj
      simp only [List.erase_cons_head, List.filter_cons]
      split <;> simp
    · have : (a == j) = false := by simpa using haj
      simp only [List.erase_cons, this, Bool.false_eq_true, if_false, List.filter_cons]
      split <;> simp <;> omega

theorem scan_erase {occ : List Nat} (j : Nat) (hj : j ∈ occ) (rest : List Nat) (acc : Nat)
    (h : occ.length ≤ acc + ahead rest occ) : (occ.erase j).length ≤ acc + ahead rest (occ.erase j) := by
  have h1 := List.length_erase_of_mem hj
  have h2 := filter_erase_le (fun x => decide (x ∈ rest)) j occ
  have hpos : occ.length ≥ 1 := List.length_pos_of_mem hj
  unfold ahead at *
  omega

/-- Facts about one thread when every request goes through instance `I`. -/
structure TOk (P : Proto) (limit I : Nat) (occ : List Nat) (locks : List Nat) (t : Thread) : Prop where
  inst : t.ops ≠ [] → t.inst = I
  winst : t.pc ≠ .idle → t.inst = I
  held : inside t.pc = true → I ∈ locks
  cnt : ∀ snap k, t.pc = .counting snap k → occ.length ≤ snap
  pas : ∀ snap k, t.pc = .passed snap k → occ.length ≤ snap ∧ full P limit snap = false
  scn : ∀ rest acc, t.pc = .scanning rest acc → occ.length ≤ acc + ahead rest occ

structure InvB (P : Proto) (limit pre I : Nat) (c : Cfg) : Prop where
  base : Base P.zeroUnl limit pre c
  thr : ∀ i, TOk P limit I c.occ c.locks (c.threads i)
  excl : ∀ i j, inside (c.threads i).pc = true → inside (c.threads j).pc = true → i = j

theorem inside_counting {pc : PC} {s k : Nat} (h : pc = .counting s k) : inside pc = true := by rw [h]; rfl
theorem inside_passed {pc : PC} {s k : Nat} (h : pc = .passed s k) : inside pc = true := by rw [h]; rfl

/-- One thread, the occupancy and the lock set change; the other threads keep their facts. -/
theorem invB_upd {P : Proto} {limit pre I : Nat} {c : Cfg} (h : InvB P limit pre I c) (tid : Nat) (t' : Thread)
    (c' : Cfg) (hb : Base P.zeroUnl limit pre c') (hthr : c'.threads = upd c.threads tid t')
    (ht' : TOk P limit I c'.occ c'.locks t')
    (hother : ∀ j, j ≠ tid → inside (c.threads j).pc = true → c'.occ.length ≤ c.occ.length ∧ I ∈ c'.locks ∧
      ∀ rest acc, (c.threads j).pc = .scanning rest acc → c'.occ.length ≤ acc + ahead rest c'.occ)
    (hex : inside t'.pc = true → ∀ j, j ≠ tid → inside (c.threads j).pc = false) : InvB P limit pre I c' := by
  refine ⟨hb, ?_, ?_⟩
  · intro i
    rw [hthr]
    by_cases hi : i = tid
    · subst hi; rw [upd_self]; exact ht'
    · rw [upd_ne _ _ _ _ hi]
      have old := h.thr i
      refine ⟨old.inst, old.winst, ?_, ?_, ?_, ?_⟩
      · intro hpc; exact (hother i hi hpc).2.1
      · intro snap k hpc
        exact Nat.le_trans (hother i hi (inside_counting hpc)).1 (old.cnt snap k hpc)
      · intro snap k hpc
        exact ⟨Nat.le_trans (hother i hi (inside_passed hpc)).1 (old.pas snap k hpc).1, (old.pas snap k hpc).2⟩
      · intro rest acc hpc
        exact (hother i hi (by rw [hpc]; rfl)).2.2 rest acc hpc
  · intro i j hi hj
    rw [hthr] at hi hj
    by_cases e1 : i = tid
    · by_cases e2 : j = tid
      · rw [e1, e2]
      · subst e1
        rw [upd_self] at hi
        rw [upd_ne _ _ _ _ e2] at hj
        rw [hex hi j e2] at hj; cases hj
    · by_cases e2 : j = tid
      · subst e2
        rw [upd_self] at hj
        rw [upd_ne _ _ _ _ e1] at hi
        rw [hex hj i e1] at hi; cases hi
      · rw [upd_ne _ _ _ _ e1] at hi
        rw [upd_ne _ _ _ _ e2] at hj
        exact h.excl i j hi hj

/-- The stepping thread is the one inside the critical section: nobody else is. -/
theorem others_out {P : Proto} {limit pre I : Nat} {c : Cfg} (h : InvB P limit pre I c) (tid : Nat)
    (hpc : inside (c.threads tid).pc = true) : ∀ j, j ≠ tid → inside (c.threads j).pc = false := by
  intro j hj
  cases hin : inside (c.threads j).pc with
  | false => rfl
  | true => exact absurd (h.excl j tid hin hpc) hj

theorem idleThread_ok {P : Proto} {limit I : Nat} {n locks : List Nat} (t t' : Thread)
    (hpc : t'.pc = .idle) (hinst : t'.inst = t.inst) (hops : t'.ops ≠ [] → t.ops ≠ [])
    (ho : t.ops ≠ [] → t.inst = I) : TOk P limit I n locks t' := by
  refine ⟨?_, ?_, ?_, ?_, ?_, ?_⟩
  · intro hh; rw [hinst]; exact ho (hops hh)
  · intro hh; exact absurd hpc hh
  · intro hh; rw [hpc] at hh; cases hh
  · intro s k hh; rw [hpc] at hh; cases hh
  · intro s k hh; rw [hpc] at hh; cases hh
  · intro s k hh; rw [hpc] at hh; cases hh

theorem tail_ne_nil {α} (l : List α) (h : l.tail ≠ []) : l ≠ [] := by
  intro e; rw [e] at h; exact h rfl

/-- `Unlock()` when nobody is inside any more: the first waiter enters, or the mutex becomes free. -/
theorem invB_handover {P : Proto} {limit pre I : Nat} {c : Cfg} (h : InvB P limit pre I c) (inst : Nat)
    (hinst : inst = I) (hnone : ∀ j, inside (c.threads j).pc = false) (hI : I ∈ c.locks) :
    InvB P limit pre I (handover c inst) := by
  unfold handover
  split
  · rename_i t hfind
    have hp := List.find?_some hfind
    simp only [Bool.and_eq_true, decide_eq_true_eq] at hp
    have old := h.thr t
    refine invB_upd h t { c.threads t with pc := .locked } _ ?_ rfl ?_ ?_ ?_
    · exact base_congr h.base rfl rfl rfl rfl
    · refine ⟨old.inst, fun _ => by rw [← hinst]; exact hp.2, fun _ => hI, ?_, ?_, ?_⟩
      · intro s k hh; cases hh
      · intro s k hh; cases hh
      · intro s k hh; cases hh
    · intro j _ hj; rw [hnone j] at hj; cases hj
    · intro _ j _; exact hnone j
  · refine ⟨base_congr h.base rfl rfl rfl rfl, ?_, h.excl⟩
    intro i
    have old := h.thr i
    refine ⟨old.inst, old.winst, ?_, old.cnt, old.pas, old.scn⟩
    intro hh; rw [hnone i] at hh; cases hh

/-- After the thread inside has finished its operation nobody is inside. -/
theorem none_inside_after {c : Cfg} (tid : Nat) (t' : Thread) (ht' : t'.pc = .idle)
    (hid : ∀ j, j ≠ tid → inside (c.threads j).pc = false) :
    ∀ j, inside (upd c.threads tid t' j).pc = false := by
  intro j
  by_cases hj : j = tid
  · subst hj; rw [upd_self, ht']; rfl
  · rw [upd_ne _ _ _ _ hj]; exact hid j hj

/-- Refusal inside the critical section. -/
theorem invB_refuse {P : Proto} {limit pre I : Nat} {c : Cfg} (h : InvB P limit pre I c) (tid : Nat)
    (hm : P.mutex = true) (hpc : inside (c.threads tid).pc = true) : InvB P limit pre I (refuseCfg P c tid) := by
  have hid := others_out h tid hpc
  have old := h.thr tid
  have hne : (c.threads tid).pc ≠ .idle := by intro e; rw [e] at hpc; cases hpc
  have h1 : InvB P limit pre I (refuseCore c tid) := by
    refine invB_upd h tid (finishOp (c.threads tid)) _ (base_refuseCore h.base tid) rfl ?_ ?_ ?_
    · exact idleThread_ok (c.threads tid) _ rfl rfl (fun hh => tail_ne_nil _ hh) old.inst
    · intro j hj hin; rw [hid j hj] at hin; cases hin
    · intro hh; cases hh
  unfold refuseCfg unlockCfg
  simp only [hm, if_true]
  exact invB_handover h1 _ (old.winst hne) (none_inside_after tid _ rfl hid) (old.held hpc)

theorem invB_done {P : Proto} {limit pre I : Nat} {c : Cfg} (h : InvB P limit pre I c) (tid : Nat)
    (hm : P.mutex = true) (hpc : inside (c.threads tid).pc = true) : InvB P limit pre I (doneCfg P c tid) := by
  have hid := others_out h tid hpc
  have old := h.thr tid
  have hne : (c.threads tid).pc ≠ .idle := by intro e; rw [e] at hpc; cases hpc
  have h1 : InvB P limit pre I (stpCfg c tid (finishOp (c.threads tid)) c.locks) := by
    apply invB_upd h tid (finishOp (c.threads tid)) _ (base_stp h.base tid _ _) rfl
    · exact idleThread_ok (c.threads tid) _ rfl rfl (fun hh => tail_ne_nil _ hh) old.inst
    · intro j hj hin; rw [hid j hj] at hin; cases hin
    · intro hh; cases hh
  unfold doneCfg unlockCfg
  simp only [hm, if_true]
  exact invB_handover h1 _ (old.winst hne) (none_inside_after tid _ rfl hid) (old.held hpc)

theorem invB_admit {P : Proto} {limit pre I : Nat} {c : Cfg} (h : InvB P limit pre I c) (tid : Nat)
    (hm : P.mutex = true) (hpc : inside (c.threads tid).pc = true)
    (hcap : capOk P.zeroUnl limit (c.occ.length + 1) = true) :
    InvB P limit pre I (admitCfg P c tid c.occ none) := by
  have hid := others_out h tid hpc
  have old := h.thr tid
  have hne : (c.threads tid).pc ≠ .idle := by intro e; rw [e] at hpc; cases hpc
  have h1 : InvB P limit pre I (admitCore c tid c.occ none) := by
    refine invB_upd h tid { finishOp (c.threads tid) with own := some c.next } _ (base_admitCore h.base tid hcap) rfl ?_ ?_ ?_
    · exact idleThread_ok (c.threads tid) _ rfl rfl (fun hh => tail_ne_nil _ hh) old.inst
    · intro j hj hin; rw [hid j hj] at hin; cases hin
    · intro hh; cases hh
  unfold admitCfg unlockCfg
  simp only [hm, if_true]
  exact invB_handover h1 _ (old.winst hne) (none_inside_after tid _ rfl hid) (old.held hpc)

/-- An intermediate step of the thread inside the critical section. -/
theorem invB_stp_in {P : Proto} {limit pre I : Nat} {c : Cfg} (h : InvB P limit pre I c) (tid : Nat) (pc' : PC)
    (hpc : inside (c.threads tid).pc = true)
    (hc : ∀ snap k, pc' = .counting snap k → c.occ.length ≤ snap)
    (hp : ∀ snap k, pc' = .passed snap k → c.occ.length ≤ snap ∧ full P limit snap = false)
    (hs : ∀ rest acc, pc' = .scanning rest acc → c.occ.length ≤ acc + ahead rest c.occ) :
    InvB P limit pre I (stpCfg c tid { c.threads tid with pc := pc' } c.locks) := by
  have hid := others_out h tid hpc
  have old := h.thr tid
  have hne : (c.threads tid).pc ≠ .idle := by intro e; rw [e] at hpc; cases hpc
  apply invB_upd h tid { c.threads tid with pc := pc' } _ (base_stp h.base tid _ _) rfl
  · exact ⟨old.inst, fun _ => old.winst hne, fun _ => old.held hpc, hc, hp, hs⟩
  · intro j hj hin; rw [hid j hj] at hin; cases hin
  · intro _; exact hid

/-- The plain insert that is followed by further operations inside the critical section. -/
theorem invB_admitHold {P : Proto} {limit pre I : Nat} {c : Cfg} (h : InvB P limit pre I c) (tid : Nat)
    (hpc : inside (c.threads tid).pc = true) (hcap : capOk P.zeroUnl limit (c.occ.length + 1) = true) :
    InvB P limit pre I (admitHold P c tid) := by
  have hid := others_out h tid hpc
  have old := h.thr tid
  have hne : (c.threads tid).pc ≠ .idle := by intro e; rw [e] at hpc; cases hpc
  refine invB_upd h tid { c.threads tid with own := some c.next, pc := .noise (P.post - 1) } (admitHold P c tid)
    (base_congr (base_admitCore h.base tid hcap) rfl rfl rfl rfl) rfl ?_ ?_ ?_
  · exact ⟨old.inst, fun _ => old.winst hne, fun _ => old.held hpc, fun s k hh => (by cases hh), fun s k hh => (by cases hh), fun r a hh => (by cases hh)⟩
  · intro j hj hin; rw [hid j hj] at hin; cases hin
  · intro _; exact hid

/-- A step of a thread that is not in the critical section and only moves its own program counter. -/
theorem invB_stp_out {P : Proto} {limit pre I : Nat} {c : Cfg} (h : InvB P limit pre I c) (tid : Nat) (pc' : PC)
    (hI : (c.threads tid).inst = I) (hout : inside pc' = false)
    (hc : ∀ snap k, pc' ≠ .counting snap k) (hp : ∀ snap k, pc' ≠ .passed snap k)
    (hs : ∀ rest acc, pc' ≠ .scanning rest acc) :
    InvB P limit pre I (stpCfg c tid { c.threads tid with pc := pc' } c.locks) := by
  have old := h.thr tid
  refine invB_upd h tid { c.threads tid with pc := pc' } _ (base_stp h.base tid _ _) rfl ?_ ?_ ?_
  · exact ⟨old.inst, fun _ => hI, fun hh => (by rw [hout] at hh; cases hh), fun s k hh => absurd hh (hc s k),
      fun s k hh => absurd hh (hp s k), fun r a hh => absurd hh (hs r a)⟩
  · intro j _ hj; exact ⟨Nat.le_refl _, (h.thr j).held hj, (h.thr j).scn⟩
  · intro hh; rw [hout] at hh; cases hh

theorem invB_end {P : Proto} {limit pre I : Nat} {c : Cfg} (h : InvB P limit pre I c) (tid : Nat) :
    InvB P limit pre I (endCfg c tid) := by
  have old := h.thr tid
  refine invB_upd h tid { finishOp (c.threads tid) with own := none } (endCfg c tid) (base_end h.base tid) rfl ?_ ?_ ?_
  · exact idleThread_ok (c.threads tid) _ rfl rfl (fun hh => tail_ne_nil _ hh) old.inst
  · intro j _ hj; exact ⟨Nat.le_refl _, (h.thr j).held hj, (h.thr j).scn⟩
  · intro hh; cases hh

theorem invB_revoke {P : Proto} {limit pre I : Nat} {c : Cfg} (h : InvB P limit pre I c) (tid k : Nat) (fail : Bool)
    (hI : (c.threads tid).inst = I) : InvB P limit pre I (revokeStep c tid k fail) := by
  have old := h.thr tid
  have hst : ∀ k', InvB P limit pre I (stpCfg c tid { c.threads tid with pc := .revoking k' } c.locks) :=
    fun k' => invB_stp_out h tid _ hI rfl (by intro s k hh; cases hh) (by intro s k hh; cases hh) (by intro r a hh; cases hh)
  unfold revokeStep
  split
  · split
    · exact invB_end h tid
    · exact hst 1
  · exact hst _
  · exact hst _
  · split
    · exact hst 4
    · split
      · exact hst 4
      · rename_i it _
        by_cases hin : it ∈ c.occ
        · simp only [hin, if_true]
          refine invB_upd h tid { c.threads tid with pc := .revoking 4 } _ (base_rel h.base tid it _ hin) rfl ?_ ?_ ?_
          · exact ⟨old.inst, fun _ => hI, fun hh => (by cases hh), fun s k hh => (by cases hh), fun s k hh => (by cases hh), fun r a hh => (by cases hh)⟩
          · intro j _ hj; exact ⟨erase_length_le _ _, (h.thr j).held hj, fun r a hp => scan_erase _ hin r a ((h.thr j).scn r a hp)⟩
          · intro hh; cases hh
        · simp only [hin, if_false]; exact hst 4
  · exact invB_end h tid

theorem invB_check {P : Proto} {limit pre I : Nat} {c : Cfg} (h : InvB P limit pre I c) (tid snap : Nat)
    (hm : P.mutex = true) (hpc : inside (c.threads tid).pc = true) (hs : c.occ.length ≤ snap) :
    InvB P limit pre I (checkStep P limit c tid snap) := by
  unfold checkStep
  cases hfull : full P limit snap with
  | true => simpa using invB_refuse h tid hm hpc
  | false =>
    simp only [Bool.false_eq_true, if_false]
    refine invB_stp_in h tid _ hpc ?_ ?_ (by intro r a hh; cases hh)
    · intro s k hh; cases hh
    · intro s k hh
      simp only [PC.passed.injEq] at hh
      rw [← hh.1]; exact ⟨hs, hfull⟩

theorem invB_noise {P : Proto} {limit pre I : Nat} {c : Cfg} (h : InvB P limit pre I c) (tid : Nat)
    (hm : P.mutex = true) (hpc : inside (c.threads tid).pc = true) :
    InvB P limit pre I (noiseStep P limit c tid) := by
  unfold noiseStep
  split
  · split
    · exact invB_done h tid hm hpc
    · exact invB_stp_in h tid _ hpc (by intro s k hh; cases hh) (by intro s k hh; cases hh) (by intro r a hh; cases hh)
  · exact invB_done h tid hm hpc

/-- `Lock()`: enter when nobody is inside, else queue up. -/
theorem invB_lock {P : Proto} {limit pre I : Nat} {c : Cfg} (h : InvB P limit pre I c) (tid : Nat)
    (hI : (c.threads tid).inst = I) (hidle : (c.threads tid).pc = .idle) :
    InvB P limit pre I (lockStep c tid) := by
  have old := h.thr tid
  unfold lockStep
  by_cases hl : (c.threads tid).inst ∈ c.locks
  · simp only [hl, if_true]
    refine invB_upd h tid { c.threads tid with pc := .waiting } (waitCfg c tid) (base_blk h.base tid rfl rfl rfl rfl) rfl ?_ ?_ ?_
    · refine ⟨old.inst, fun _ => hI, fun hh => (by cases hh), ?_, ?_, ?_⟩
      · intro s k hh; cases hh
      · intro s k hh; cases hh
      · intro s k hh; cases hh
    · intro j _ hj; exact ⟨Nat.le_refl _, (h.thr j).held hj, (h.thr j).scn⟩
    · intro hh; cases hh
  · simp only [hl, if_false]
    have hfree : ∀ j, inside (c.threads j).pc = false := by
      intro j
      cases hin : inside (c.threads j).pc with
      | false => rfl
      | true =>
        have := (h.thr j).held hin
        rw [← hI] at this
        exact absurd this hl
    apply invB_upd h tid { c.threads tid with pc := .locked } _ (base_stp h.base tid _ _) rfl
    · refine ⟨old.inst, fun _ => hI, fun _ => ?_, ?_, ?_, ?_⟩
      · simp only [stpCfg, hI]; exact List.mem_cons_self
      · intro s k hh; cases hh
      · intro s k hh; cases hh
      · intro s k hh; cases hh
    · intro j _ hj; rw [hfree j] at hj; cases hj
    · intro _ j _; exact hfree j

theorem mem_holdLock' (locks : List Nat) (i : Nat) : i ∈ holdLock locks i := by
  unfold holdLock
  split
  · assumption
  · exact List.mem_cons_self

/-- Read-modify-write requests on one record, serialised by the instance mutex. -/
theorem invB_rmw {P : Proto} {limit pre I : Nat} {c : Cfg} (h : InvB P limit pre I c) (tid : Nat) (isRevoke : Bool)
    (hm : P.mutex = true) (hsw : P.staleWrite = false) (hI : (c.threads tid).inst = I)
    (hne : (c.threads tid).ops ≠ []) : InvB P limit pre I (rmwStep P c tid isRevoke) := by
  have old := h.thr tid
  unfold rmwStep
  split
  · -- idle: lock + read in one step, or queue up
    rename_i hpc
    simp only [hm, hsw, Bool.not_false, Bool.and_self, if_true]
    by_cases hl : (c.threads tid).inst ∈ c.locks
    · simp only [hl, if_true]
      have := invB_lock h tid hI hpc
      unfold lockStep at this
      simpa only [hl, if_true] using this
    · simp only [hl, if_false]
      have hfree : ∀ j, inside (c.threads j).pc = false := by
        intro j
        cases hin : inside (c.threads j).pc with
        | false => rfl
        | true =>
          have := (h.thr j).held hin
          rw [← hI] at this
          exact absurd this hl
      refine invB_upd h tid { c.threads tid with pc := .noise (if 0 ∈ c.occ then 1 else 0) } _ (base_stp h.base tid _ _) rfl
        ?_ ?_ ?_
      · refine ⟨old.inst, fun _ => hI, fun _ => ?_, ?_, ?_, ?_⟩
        · simp only [stpCfg, hI]; exact mem_holdLock' _ _
        · intro s k hh; cases hh
        · intro s k hh; cases hh
        · intro s k hh; cases hh
      · intro j _ hj; rw [hfree j] at hj; cases hj
      · intro _ j _; exact hfree j
  · exact ⟨base_blk (c' := blkCfg c tid) h.base tid rfl rfl rfl rfl, h.thr, h.excl⟩
  · rename_i hpc
    exact invB_stp_in h tid _ (by rw [hpc]; rfl) (by intro s k hh; cases hh) (by intro s k hh; cases hh)
      (by intro r a hh; cases hh)
  · rename_i k hpc
    have hni : inside (c.threads tid).pc = true := by rw [hpc]; rfl
    split
    · unfold mrevokeWrite
      split
      · rename_i hin
        have hid := others_out h tid hni
        have hnid : (c.threads tid).pc ≠ .idle := by rw [hpc]; simp
        have h1 : InvB P limit pre I (relCore c tid 0) := by
          refine invB_upd h tid (finishOp (c.threads tid)) _ (base_rel h.base tid 0 _ hin) rfl ?_ ?_ ?_
          · exact idleThread_ok (c.threads tid) _ rfl rfl (fun hh => tail_ne_nil _ hh) old.inst
          · intro j hj hin'; rw [hid j hj] at hin'; cases hin'
          · intro hh; cases hh
        unfold unlockCfg
        simp only [hm, if_true]
        exact invB_handover h1 _ (old.winst hnid) (none_inside_after tid _ rfl hid) (old.held hni)
      · exact invB_done h tid hm hni
    · unfold touchWrite
      simp only [hsw, Bool.false_and, Bool.false_eq_true, if_false]
      exact invB_done h tid hm hni
  · exact h

theorem invB_step {P : Proto} {limit pre I : Nat} {c : Cfg} (h : InvB P limit pre I c) (tid : Nat)
    (hm : P.mutex = true) (he : P.early = true) (hf : P.final = .plain) (hfu : P.fused = false)
    (hsw : P.staleWrite = false) :
    InvB P limit pre I (stepThread P limit c tid) := by
  have old := h.thr tid
  unfold stepThread
  split
  · exact h
  · -- release
    split
    · apply invB_upd h tid { finishOp (c.threads tid) with own := none } _ (base_nop h.base tid) rfl
      · exact idleThread_ok (c.threads tid) _ rfl rfl (fun hh => tail_ne_nil _ hh) old.inst
      · intro j _ hj; exact ⟨Nat.le_refl _, (h.thr j).held hj, (h.thr j).scn⟩
      · intro hh; cases hh
    · rename_i it _
      by_cases hin : it ∈ c.occ
      · simp only [hin, if_true]
        apply invB_upd h tid { finishOp (c.threads tid) with own := none } _ (base_rel h.base tid it _ hin) rfl
        · exact idleThread_ok (c.threads tid) _ rfl rfl (fun hh => tail_ne_nil _ hh) old.inst
        · intro j _ hj; exact ⟨erase_length_le _ _, (h.thr j).held hj, fun r a hp => scan_erase _ hin r a ((h.thr j).scn r a hp)⟩
        · intro hh; cases hh
      · simp only [hin, if_false]
        apply invB_upd h tid { finishOp (c.threads tid) with own := none } _ (base_nop h.base tid) rfl
        · exact idleThread_ok (c.threads tid) _ rfl rfl (fun hh => tail_ne_nil _ hh) old.inst
        · intro j _ hj; exact ⟨Nat.le_refl _, (h.thr j).held hj, (h.thr j).scn⟩
        · intro hh; cases hh
  · -- acquire
    rename_i hops
    have hne : (c.threads tid).ops ≠ [] := by rw [hops]; simp
    have hI : (c.threads tid).inst = I := old.inst hne
    split
    · rename_i hpc
      simp only [hm, hfu, if_true, Bool.false_eq_true, if_false]
      exact invB_lock h tid hI hpc
    · exact ⟨base_blk (c' := blkCfg c tid) h.base tid rfl rfl rfl rfl, h.thr, h.excl⟩
    · -- locked: read
      rename_i hpc
      have hni : inside (c.threads tid).pc = true := by rw [hpc]; rfl
      simp only [hfu, Bool.false_eq_true, if_false]
      unfold readStep
      simp only [he, if_true]
      split
      · -- the count is a scan of the index
        split
        · rename_i hidx
          apply invB_check h tid _ hm hni
          have hsub := h.base.sub
          cases hocc : c.occ with
          | nil => simp
          | cons a t =>
            have := hsub a (by rw [hocc]; exact List.mem_cons_self)
            rw [hidx] at this; cases this
        · rename_i e r hidx
          refine invB_stp_in h tid _ hni (by intro s k hh; cases hh) (by intro s k hh; cases hh) ?_
          intro rest acc hh
          simp only [PC.scanning.injEq] at hh
          rw [← hh.1, ← hh.2, ahead_all _ _ h.base.sub]
          omega
      · by_cases hc : P.cnt c.occ.length = 0
        · simp only [hc, if_true]; exact invB_check h tid _ hm hni (Nat.le_refl _)
        · simp only [hc, if_false]
          refine invB_stp_in h tid _ hni ?_ (by intro s k hh; cases hh) (by intro r a hh; cases hh)
          intro s k hh
          simp only [PC.counting.injEq] at hh
          rw [← hh.1]; exact Nat.le_refl _
    · -- counting
      rename_i snap k hpc
      have hni : inside (c.threads tid).pc = true := by rw [hpc]; rfl
      have hs := old.cnt snap k hpc
      by_cases hk : k ≤ 1
      · simp only [hk, if_true]; exact invB_check h tid snap hm hni hs
      · simp only [hk, if_false]
        refine invB_stp_in h tid _ hni ?_ (by intro s k hh; cases hh) (by intro r a hh; cases hh)
        intro s k' hh
        simp only [PC.counting.injEq] at hh
        rw [← hh.1]; exact hs
    · -- passed
      rename_i snap k hpc
      have hni : inside (c.threads tid).pc = true := by rw [hpc]; rfl
      have hs := old.pas snap k hpc
      split
      · unfold finalStep
        simp only [hf]
        have hcap := capOk_mono _ _ _ _ (capOk_succ_of_not_full P limit snap hs.2) (Nat.succ_le_succ hs.1)
        split
        · exact invB_admit h tid hm hni hcap
        · exact invB_admitHold h tid hni hcap
      · refine invB_stp_in h tid _ hni (by intro s k hh; cases hh) ?_ (by intro r a hh; cases hh)
        intro s k' hh
        simp only [PC.passed.injEq] at hh
        rw [← hh.1]; exact hs
    · rename_i k hpc
      have hni : inside (c.threads tid).pc = true := by rw [hpc]; rfl
      split
      · exact invB_done h tid hm hni
      · exact invB_stp_in h tid _ hni (by intro s k hh; cases hh) (by intro s k hh; cases hh) (by intro r a hh; cases hh)
    · simp only [hfu, Bool.false_eq_true, if_false]
      exact h
    · -- scanning: one record read
      rename_i rest acc hpc
      have hni : inside (c.threads tid).pc = true := by rw [hpc]; rfl
      have hs := old.scn rest acc hpc
      unfold scanStep
      split
      · apply invB_check h tid _ hm hni
        rw [ahead_nil] at hs; omega
      · rename_i e r
        have hadv := scan_advance h.base.nd e r acc hs
        split
        · rename_i hr
          apply invB_check h tid _ hm hni
          rw [hr, ahead_nil] at hadv; omega
        · refine invB_stp_in h tid _ hni (by intro s k hh; cases hh) (by intro s k hh; cases hh) ?_
          intro rest' acc' hh
          simp only [PC.scanning.injEq] at hh
          rw [← hh.1, ← hh.2]; exact hadv
    · exact h
  · rename_i hops
    have hne : (c.threads tid).ops ≠ [] := by rw [hops]; simp
    exact invB_rmw h tid false hm hsw (old.inst hne) hne
  · rename_i hops
    have hne : (c.threads tid).ops ≠ [] := by rw [hops]; simp
    exact invB_rmw h tid true hm hsw (old.inst hne) hne
  · -- revoke through the service: not under the quota mutex
    rename_i hops
    have hne : (c.threads tid).ops ≠ [] := by rw [hops]; simp
    have hI : (c.threads tid).inst = I := old.inst hne
    split
    · split
      · exact invB_stp_out h tid _ hI rfl (by intro s k hh; cases hh) (by intro s k hh; cases hh) (by intro r a hh; cases hh)
      · exact invB_end h tid
    · exact invB_revoke h tid _ _ hI
    · exact h
  · -- a request of another client
    rename_i hops
    have hne : (c.threads tid).ops ≠ [] := by rw [hops]; simp
    have hI : (c.threads tid).inst = I := old.inst hne
    split
    · rename_i hpc
      simp only [hm, if_true]
      exact invB_lock h tid hI hpc
    · exact ⟨base_blk (c' := blkCfg c tid) h.base tid rfl rfl rfl rfl, h.thr, h.excl⟩
    · rename_i hpc
      exact invB_noise h tid hm (by rw [hpc]; rfl)
    · rename_i k hpc
      have hni : inside (c.threads tid).pc = true := by rw [hpc]; rfl
      split
      · exact invB_done h tid hm hni
      · exact invB_stp_in h tid _ hni (by intro s k hh; cases hh) (by intro s k hh; cases hh) (by intro r a hh; cases hh)
    · exact h
    · exact h
    · exact h
    · exact h
    · exact h

theorem invB_run {P : Proto} {limit pre I : Nat} (hm : P.mutex = true) (he : P.early = true) (hf : P.final = .plain)
    (hfu : P.fused = false) (hsw : P.staleWrite = false) (σ : List Nat) (c : Cfg) (h : InvB P limit pre I c) :
    InvB P limit pre I (run P limit c σ) := by
  induction σ generalizing c with
  | nil => exact h
  | cons t r ih =>
    simp only [run, List.foldl_cons]
    exact ih _ (invB_step h t hm he hf hfu hsw)

theorem invB_initDead (P : Proto) (limit dead pre I : Nat) (progs : List (List Op))
    (h : capOk P.zeroUnl limit pre = true) :
    InvB P limit pre I (initDead dead pre (progs.map (fun p => (I, p)))) := by
  refine ⟨base_initDead _ _ _ _ _ h, ?_, ?_⟩
  · intro i
    simp only [initDead, mkThreads]
    cases hi : (progs.map (fun p => (I, p)))[i]? with
    | none =>
      exact idleThread_ok (P := P) (limit := limit) ⟨0, [], .idle, none⟩ ⟨0, [], .idle, none⟩ rfl rfl (fun hh => hh)
        (fun hh => absurd rfl hh)
    | some p =>
      simp only [mkThread]
      rw [List.getElem?_map] at hi
      cases hp : progs[i]? with
      | none => simp [hp] at hi
      | some q =>
        simp [hp] at hi
        exact idleThread_ok (P := P) (limit := limit) ⟨p.1, p.2, .idle, none⟩ ⟨p.1, p.2, .idle, none⟩ rfl rfl (fun hh => hh)
          (fun _ => by rw [← hi])
  · intro i j hi
    simp only [initDead, mkThreads] at hi
    split at hi <;> simp [mkThread, inside] at hi

theorem invB_init (P : Proto) (limit pre I : Nat) (progs : List (List Op))
    (h : capOk P.zeroUnl limit pre = true) :
    InvB P limit pre I (init pre (progs.map (fun p => (I, p)))) := by
  refine ⟨base_init _ _ _ _ h, ?_, ?_⟩
  · intro i
    simp only [init, mkThreads]
    cases hi : (progs.map (fun p => (I, p)))[i]? with
    | none =>
      exact idleThread_ok (P := P) (limit := limit) ⟨0, [], .idle, none⟩ ⟨0, [], .idle, none⟩ rfl rfl (fun hh => hh)
        (fun hh => absurd rfl hh)
    | some p =>
      simp only [mkThread]
      rw [List.getElem?_map] at hi
      cases hp : progs[i]? with
      | none => simp [hp] at hi
      | some q =>
        simp [hp] at hi
        exact idleThread_ok (P := P) (limit := limit) ⟨p.1, p.2, .idle, none⟩ ⟨p.1, p.2, .idle, none⟩ rfl rfl (fun hh => hh)
          (fun _ => by rw [← hi])
  · intro i j hi
    simp only [init, mkThreads] at hi
    split at hi <;> simp [mkThread, inside] at hi

end Tunnox.C17
