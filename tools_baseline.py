#!/usr/bin/env python3
"""usage: tools_baseline.py <repo-dir> [pkg-pattern…]   Runs the pinned test suite (guard off) and reports every
stable_pass test of /root/.vp/BASELINE.json that did not pass."""
import json, subprocess, sys, os
repo = sys.argv[1]
pkgs = sys.argv[2:] or ["./..."]
base = json.load(open("/root/.vp/BASELINE.json"))
stable = set(base["stable_pass"])
env = dict(os.environ, GOFLAGS="-mod=mod", GOPROXY="off")
p = subprocess.Popen(["go", "test", "-json", "-vet=off", "-count=1", "-timeout", "25m"] + pkgs, cwd=repo, env=env,
                     stdout=subprocess.PIPE, stderr=subprocess.DEVNULL)
passed, failed, seen_pkgs = set(), set(), set()
for line in p.stdout:
    try:
        e = json.loads(line)
    except Exception:
        continue
    if e.get("Test"):
        k = "%s::%s" % (e["Package"], e["Test"])
        if e["Action"] == "pass":
            passed.add(k)
        elif e["Action"] == "fail":
            failed.add(k)
    elif e.get("Action") in ("pass", "fail", "skip"):
        seen_pkgs.add(e["Package"])
p.wait()
scope = {t for t in stable if t.split("::")[0] in seen_pkgs} if pkgs != ["./..."] else stable
missing = sorted(scope - passed)
print("packages run: %d  tests passed: %d  stable_pass in scope: %d  missing: %d" % (len(seen_pkgs), len(passed), len(scope), len(missing)))
for m in missing[:50]:
    print("  NOT PASSED:", m, "(failed)" if m in failed else "(not run)")
sys.exit(1 if missing else 0)
