#!/usr/bin/env python3
"""Regenerates the generated part of DESIGN.md (between the BEGIN/END GENERATED markers): status per property,
fix commits, known findings, seeded changes and which check catches them."""
import json, os, re, glob, subprocess, importlib.util
V = os.path.dirname(os.path.abspath(__file__))
def spec(pid):
    sp = importlib.util.spec_from_file_location("c", os.path.join(V, "checks", pid.lower() + ".py"))
    m = importlib.util.module_from_spec(sp); sp.loader.exec_module(m); return m.SPEC
props = {json.loads(l)["id"]: json.loads(l) for l in open(os.path.join(V, "properties.jsonl"))}
out = []
out.append("### 11.3 Status per property (measured by the last run on /repo; see evidence/<id>.json)\n")
out.append("| id | theorems (axiom-clean) | harness cases (quick) | distinct non-trivial | known findings hit | model/Props size (lines) |")
out.append("|---|---|---|---|---|---|")
for pid in sorted(props):
    ev_p = os.path.join(V, "evidence", pid + ".json")
    if not os.path.exists(ev_p):
        out.append("| %s | (no evidence yet) | | | | |" % pid); continue
    ev = json.load(open(ev_p)); c = ev["coverage"]
    n = 0
    for f in glob.glob(os.path.join(V, "lean", "TunnoxModel", "*", pid + "*.lean")):
        n += sum(1 for _ in open(f))
    out.append("| %s | %d / %d | %d | %d | %s | %d |" % (pid, c.get("discharged", 0), c.get("obligations", 0), c.get("evaluations", 0),
               c.get("distinct_nontrivial", 0), ", ".join(c.get("known_findings_hit", [])) or "–", n))
out.append("")
out.append("### 11.4 Defects repaired in /repo (`fix:` commits, in order) and findings recorded\n")
import subprocess as _sp
_head = _sp.check_output(["git", "-C", "/repo", "rev-parse", "--short", "HEAD"]).decode().strip()
_bl = os.path.join(V, "checks", "baseline_verified.txt")
out.append("Every commit below touches only what the defect requires; with all of them applied the pinned suite, unedited and with the "
           "`verif` guard off, still passes: " + (open(_bl).read().strip() if os.path.exists(_bl) else "see tools_baseline.py") +
           " (current /repo HEAD: " + _head + ").\n")
fixed, known = [], []
for l in open(os.path.join(V, "KNOWN_FINDINGS.txt")):
    m = re.match(r"fixed: property=(\S+) (\S+) (.*)", l.strip())
    if m: fixed.append(m.groups())
    m = re.match(r"known: property=(\S+) key=(\S+) (.*)", l.strip())
    if m: known.append(m.groups())
log = subprocess.check_output(["git", "-C", "/repo", "log", "--reverse", "--format=%h %s"]).decode().splitlines()
commits = [l.split(" ", 1) for l in log if " fix:" in " " + l.split(" ", 1)[1][:5] or l.split(" ", 1)[1].startswith("fix:")]
byhash = {h: (p, w) for p, h, w in fixed}
out.append("| commit | property | subject | what failed on the unchanged tree |")
out.append("|---|---|---|---|")
for h, subj in commits:
    p, w = byhash.get(h, ("?", ""))
    out.append("| %s | %s | %s | %s |" % (h, p, subj.replace("|", "/"), w.replace("|", "/")[:300]))
out.append("")
out.append("Known findings (not repaired; the check prints `KNOWN-FINDING:` for exactly these witness keys):\n")
out.append("| property | key | what fails |")
out.append("|---|---|---|")
for p, k, w in known:
    out.append("| %s | %s | %s |" % (p, k, w.replace("|", "/")[:420]))
out.append("")
out.append("### 11.5 Seeded regressions (`seeded/<name>/`) and which check catches them\n")
# summary: how the checks did on the FIRST run against each seeded change (before any strengthening), and now
import collections
first, now = collections.Counter(), collections.Counter()
for d in glob.glob(os.path.join(V, "seeded", "*")):
    m = json.load(open(os.path.join(d, "meta.json")))
    t = str(m.get("detection", "")).lower()
    k = "missed" if ("missed" in t[:60]) else ("half-detected" if "half" in t[:40] else ("caught" if "caught" in t[:40] else "other"))
    first[k] += 1
    r = (m.get("recheck") or {}).get("result", "not re-run")
    now["obsolete" if m.get("obsolete") else r.split(" by ")[0]] += 1
_pp = collections.Counter(os.path.basename(d).split("-")[0] for d in glob.glob(os.path.join(V, "seeded", "*")))
_span = "%d to %d per property, 12 rounds" % (min(_pp.values()), max(_pp.values()))
out.append(("%d confirmed seeded changes (" + _span + "; each written by a fresh agent that saw only the property text "
           "and the list of mechanisms already taken). **First run** against the check as it stood then: %s. Every miss or half-detection "
           "was answered by strengthening the model, the theorems, the source ties or the generators (never by loosening), which on the way "
           "exposed most of the genuine defects of §11.4. **Now** (re-run of every seed against /repo HEAD by `tools_seed_recheck.py`): %s. "
           "A seed marked OBSOLETE is no longer reachable after a `fix:` commit (its own demo passes on the patched current tree). "
           "Where a sibling property's check is the one that sees a change (`checked_by` in meta.json), the detection text says so.\n")
           % (sum(first.values()), ", ".join("%d %s" % (v, k) for k, v in first.most_common()),
              ", ".join("%d %s" % (v, k) for k, v in now.most_common())))
out.append("| seeded change | property | needs to manifest | detection history | last re-check (tools_seed_recheck.py) |")
out.append("|---|---|---|---|---|")
for d in sorted(glob.glob(os.path.join(V, "seeded", "*"))):
    m = json.load(open(os.path.join(d, "meta.json")))
    rc = m.get("recheck") or {}
    out.append("| %s | %s | %s | %s | %s |" % (os.path.basename(d), m.get("property"), str(m.get("needs_to_manifest", "")).replace("|", "/")[:260],
               (str(m.get("detection", "")) + (" — OBSOLETE: " + m["obsolete"] if m.get("obsolete") else "")).replace("|", "/"), ("%s @ %s" % (rc.get("result"), rc.get("repo_head"))) if rc else "–"))
out.append("")
txt = "\n".join(out)
p = os.path.join(V, "DESIGN.md")
s = open(p).read()
b, e = "<!-- BEGIN GENERATED -->", "<!-- END GENERATED -->"
if b in s:
    s = s[:s.index(b) + len(b)] + "\n" + txt + "\n" + s[s.index(e):]
else:
    s = s.rstrip("\n") + "\n\n" + b + "\n" + txt + "\n" + e + "\n"
open(p, "w").write(s)
print("DESIGN.md tables regenerated:", len(commits), "fix commits,", len(known), "known findings")
