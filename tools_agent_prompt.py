#!/usr/bin/env python3
import json, re, sys
pid = sys.argv[1].upper()
props = {json.loads(l)["id"]: json.loads(l) for l in open("/verif/properties.jsonl")}
p = props[pid]
design = open("/verif/DESIGN.md").read()
m = re.search(r"(### %s —.*?)(?=\n### C\d\d —|\n-{20,})" % pid, design, re.S)
sec = m.group(1) if m else "(no section)"
ws = "/tmp/ag/%s" % pid.lower()
print(f"""You are extending a Lean-4-based verification framework for the Go project tunnox-core (an intranet-penetration tunnel platform). Your job: build the complete check for ONE property, {pid}, end to end, inside your private workspace. Work autonomously until it is done; do not ask questions.

## Workspace (private to you — touch nothing outside it)
* `{ws}/verif` — your own git clone (branch `{pid.lower()}`) of the framework. Read `{ws}/verif/GUIDE.md` FIRST (conventions), then the worked example C01/C05 it points to, then `{ws}/verif/DESIGN.md` §2–§4 and the {pid} entry of §5 (copied below).
* `{ws}/repo` — your own git worktree of tunnox-core (detached HEAD). The Go source to verify. Run everything against it: `export VERIF_REPO={ws}/repo` before `./check`. Any repair of a genuine defect is committed THERE (one `fix:` commit per defect), never in /repo.
* NEVER write to `/repo` or `/verif` (other agents and the integrator use them). Use `/tmp/ag/{pid.lower()}/scratch` for scratch files and delete them when done.
* Offline sandbox: no network. `export GOFLAGS=-mod=mod GOPROXY=off` in every shell call that runs `go`; never set GOSUMDB. Lean 4.33 (`lake`, `lean`) is on PATH; Mathlib is available for *proof* modules only (single-module imports).

## The property (fixed text — do not reinterpret it)
{pid}: {p['title']}
Statement: {p['statement']}
Quantifier: {', '.join(p['quantifier']['over'])} — {p['quantifier']['text']}
Why tests can't: {p['why_tests_cant']}
Anchor files: {', '.join(p['anchors']['files'])}
Mechanisms: {json.dumps(p['anchors'].get('mechanism'), ensure_ascii=False)}
Observe at: {json.dumps(p['anchors'].get('observe_at'), ensure_ascii=False)}

## Design entry for {pid} (from DESIGN.md §5; a plan, not a contract — the property text above is the contract)
{sec}

## What to deliver (all inside `{ws}/verif`, committed on your branch; small commits)
1. `lean/TunnoxModel/Model/{pid}.lean`, `Spec/{pid}.lean`, `Proofs/{pid}.lean` (if needed), `Props/{pid}.lean`, `Driver/{pid}.lean` following GUIDE.md. The theorems in Props must quantify over ALL inputs / histories / schedules the property names (induction, invariants, refinement — no bounds), be stated about the executable model that the driver runs, and use the Spec `holds` predicate (the same one the driver applies to implementation observations) wherever possible. No `sorry`, `admit`, `axiom`, `native_decide`, `bv_decide`; axioms only propext / Classical.choice / Quot.sound (run the Audit). Include non-vacuity `example`s.
2. `extract/spec.d/{pid.lower()}.json` — regenerate from the Go source every constant, table, decision predicate and call skeleton your model relies on (so that changing them in Go re-checks or breaks the proofs). Extend `extract/main.go` only if needed, minimally and additively.
3. `harness/{pid.lower()}/main.go` (+ shims) — in-process harness driving the REAL code, emitting `case ## observation` lines; generators with structured, mostly-valid inputs plus boundary/malformed streams; for schedule-quantified parts use gated doubles to force interleavings (exhaustive for small scopes in quick tier, deeper in thorough). The case string must contain everything the Lean driver needs to run the model on the same input.
4. `checks/{pid.lower()}.py` (SPEC), `corpus/{pid}/*.txt` (witnesses), lines in `KNOWN_FINDINGS.txt` if you find defects.
5. `./check {pid} --tier quick` must exit 0 with no VIOLATION line on your (possibly repaired) repo worktree in ≤ ~60 s, be deterministic across `VERIF_SEED=1,2,3`, and `--tier thorough` must also pass (≤ ~10 min). Then SELF-TEST detection: make 2–3 realistic breaking edits of the anchored Go code in your worktree, one at a time (e.g. drop a guard, reorder steps, off-by-one, replace an atomic claim by check-then-set), confirm `./check {pid}` reports VIOLATION with a replay for each, and revert them (`git -C {ws}/repo checkout -- .`). Strengthen generators until they are caught.
6. Defects on the unchanged tree: DESIGN §5/§6 lists suspected/confirmed ones for {pid}. Re-verify each against the real code first. Repair when small and safe (see GUIDE "Defects"): one `fix:` commit each in `{ws}/repo`, affected packages' existing tests (unedited) must pass: `cd {ws}/repo && go test -vet=off -count=1 ./internal/<pkg>/...`. Otherwise keep it as a known finding with model variant + witness theorem + `K:<key>` + `known:` line.
7. Final report (your last message, ≤ 40 lines): files added; theorem names with one-line meaning each; which parts are proved vs only observed by the harness; WF hypotheses; defects found (fixed commits hashes in `{ws}/repo` / known findings); the self-test mutations and whether each was caught; any edits to shared files (`extract/main.go`, `harness/common`, `check`, `GUIDE.md`) with the reason; wall time of quick and thorough.

## Priorities
Breadth first, then depth: (a) a faithful executable model + working harness + driver correspondence on the unchanged tree, (b) the main theorem(s) proved, (c) mutation self-test, (d) deeper theorems / wider generators. A smaller theorem that is really proved about the model the driver runs, with a tight tie, beats an ambitious unfinished one — but state every property at full strength and label partial results `_partial`. Keep proofs robust (no 40-second `simp`; split lemmas). Budget: aim to be done in about 2 hours of work; stop and report when the deliverables above are complete.
""")
