#!/usr/bin/env python3
"""Regenerates MANIFEST.json from checks/*.py (claimed) and checks/not_applicable.json."""
import importlib.util, json, os, subprocess
V = os.path.dirname(os.path.abspath(__file__))
checks = []
for f in sorted(os.listdir(os.path.join(V, "checks"))):
    if not f.endswith(".py"):
        continue
    sp = importlib.util.spec_from_file_location("c", os.path.join(V, "checks", f))
    m = importlib.util.module_from_spec(sp); sp.loader.exec_module(m)
    s = m.SPEC
    pid = s["id"]
    checks.append({
        "property_id": pid,
        "quick_cmd": "./check %s --tier quick" % pid,
        "thorough_cmd": "./check %s --tier thorough" % pid,
        "evidence_file": "/verif/evidence/%s.json" % pid,
        "replay_cmd_template": "./check %s --replay {path}" % pid,
        "engine": "tunnox-lean",
        "level_claimed": {
            "category": "proof",
            "text": s.get("level_text", "Lean 4 theorems about an executable model of the anchored code, for all inputs/histories/schedules the property quantifies over; the model is tied to the current source by regenerated Gen modules (constants, translated predicates, skeletons) and by a differential correspondence run of the real code against the compiled model, whose `holds` predicate (the theorem's own statement) is the oracle on implementation observations."),
            "design_ref": "DESIGN.md §5 " + pid,
        },
        "level_note": " | ".join(s.get("trusted_base", []) + ["assumes: " + a for a in s.get("assumptions", [])]),
        "technique": s.get("technique", "Lean 4 machine-checked proof over an executable model + regenerated source tie + differential correspondence"),
    })
na_path = os.path.join(V, "checks", "not_applicable.json")
na = json.load(open(na_path)) if os.path.exists(na_path) else []
claimed = {c["property_id"] for c in checks}
na = [x for x in na if x["property_id"] not in claimed]
hooks = json.load(open(os.path.join(V, "checks", "hooks.json")))
man = {
    "version": 1,
    "setup_cmd": "./setup.sh",
    "hooks": hooks,
    "engines": [{"name": "tunnox-lean", "path": "/verif/lean + /verif/check + /verif/extract + /verif/harness",
                 "serves_properties": sorted(claimed),
                 "kind_free_text": "Lean 4 library TunnoxModel (models, specs, theorems), go/ast extractor regenerating Gen/*.lean, Go overlay harnesses, Python runner"}],
    "checks": checks,
    "not_applicable": na,
    "notes": "See DESIGN.md. Findings: KNOWN_FINDINGS.txt. Seeded regressions: seeded/.",
}
json.dump(man, open(os.path.join(V, "MANIFEST.json"), "w"), indent=1, ensure_ascii=False)
print("MANIFEST.json:", len(checks), "checks,", len(na), "not_applicable")
