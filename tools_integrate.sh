#!/bin/bash
# usage: tools_integrate.sh <cxx>  — merge the agent branch into /verif and cherry-pick its fix: commits into /repo
set -e
id=$1
cd /verif
git fetch -q /tmp/ag/$id/verif $id
git merge --no-edit FETCH_HEAD 2>&1 | tail -2
python3 tools_gen_lean_roots.py
base=$(git -C /repo merge-base HEAD $(git -C /tmp/ag/$id/repo rev-parse HEAD))
echo "fix commits in agent worktree:"
git -C /tmp/ag/$id/repo log --reverse --format='%h %s' $base..HEAD
for c in $(git -C /tmp/ag/$id/repo log --reverse --format='%h' $base..HEAD); do
  git -C /repo cherry-pick $c 2>&1 | tail -1 || { echo "CHERRY-PICK CONFLICT on $c"; exit 1; }
  new=$(git -C /repo log --format=%h -1)
  # the commit gets a new hash in /repo: rewrite references to it in /verif's text files
  grep -rl "$c" . --exclude-dir=.git --exclude-dir=.lake --exclude-dir=.work 2>/dev/null | xargs -r sed -i "s/$c/$new/g"
done
(cd /repo && go build ./... ) && echo "repo builds"
