SPEC = {
    "id": "C18",
    "lean_props": ["TunnoxModel.Props.C18"],
    "harness": {
        "pkg": "c18",
        "shims": {"security": "internal/security"},
        "runs": [{"args": [], "corpus": "witness", "timeout": 1200},
                 {"args": ["-mode", "race"], "corpus": "race", "timeout": 1200}],
    },
    "rule": ("scripted time lines on the real clock (20 ms grid, every configured duration 20k+10 ms, a case is re-run when an "
             "event misses its instant by more than 7 ms) against the real BruteForceProtector (fail/success/query/cleanup/"
             "delayed unbanIfExpired), IPManager (add/remove black/white incl. CIDR, IsAllowed, cleanup, delayed "
             "removeExpiredFromBlacklist), RateLimiter (AllowIP, cleanup; token counts kept away from the threshold by > 10 ms of "
             "refill) and ServerAuthHandler.HandleHandshake (7 kinds of attempts, list changes and asynchronous steps in between); "
             "generators: random mixes with gaps at the window/ban/TTL boundaries, threshold-then-expiry-then-reban with late unban, "
             "permanent-then-success-then-failures, window pruning around the threshold, expired-entry shadowing; "
             "non-trivial = more than five events; distinct = distinct case strings; "
             "second run = racing rounds (200 quick / 5000 thorough, plus a quarter of that under the protector's own ticker): 600 "
             "addresses with an elapsed, unswept ban, 8 goroutines add the threshold-reaching failure to each while the real "
             "cleanup() runs; every address whose RecordFailure reported a ban must answer IsBanned=true (observation `lost k`, "
             "judged by holdsBF on the least favourable scan/failure/delete placement); hit statistics in the distribution; "
             "race2: 12 simultaneous AllowIP calls of one address without a bucket (first contact, or just evicted), parked on the "
             "table lock (deterministic) or behind a spin barrier, 300 rounds quick / 4000 thorough per flavour; observation = excess "
             "over the burst after allowing the refill over the measured span, judged by holdsRLX on the all-lookups-first placement"),
    "trusted_base": [
        "Lean 4.33 kernel; axioms propext, Classical.choice, Quot.sound only (audited per theorem on every run)",
        "extractor /verif/extract: defaults, config literals, BanRecord.isExpired / IPRecord.isExpired and 17 call skeletons "
        "regenerated into Gen/Security.lean",
        "differential harness /verif/harness/c18 on the real wall clock; compiled Lean driver as model and as holds-oracle",
        "the decision `total >= PermanentBanAt`, `recent >= MaxFailures`, the window filter and the token arithmetic are mirrored by "
        "hand in Model/C18.lean and tied by the harness only (boundary counts and timings), not by translation",
    ],
    "assumptions": [
        "WF: time stamps non-decreasing and >= 1; 0 < BanDuration (a zero duration is the permanent-ban call); "
        "Burst*U <= Rate*TTL for the rate bound (the defaults satisfy both, by decide); excluded points are run and reported",
        "atomic steps = one mutex critical section (RecordFailure = mu section, then banIP; cleanup = mu section, then one banMu "
        "section); tied by the call skeletons; the theorem also covers cleanup cut into cleanFr/cleanBan and a sweep cut into "
        "scan and re-checking delete phase; the harness cannot pause inside a call: those interleavings are covered by the proof, "
        "and cleanup-vs-ban additionally by the racing run (probabilistic search, can only find, never establish)",
        "float64 token arithmetic is modelled by exact integers in 1/U token; two time.Now() calls inside one call are one instant",
        "IPv4 addresses in canonical text; a whitelisted address is allowed by design (whitelist has priority)",
        "admin calls BanIP/UnbanIP/Reset are outside the time lines; list persistence is modelled as a copy of the in-memory lists "
        "(saveToStorage/removeFromStorage) that a restart loads; the storage's own TTL (drops only already-expired records), the "
        "index list's DefaultDataTTL on the memory backend, and two managers alive at once over one storage (no refresh after "
        "construction) are not modelled; harness uses the memory backend",
        "handshake time lines of the harness use either Burst=1000 with 1 token/s (inside the hypothesis of C18_handshake) or a small "
        "burst without refill and a TTL beyond the time line (outside Burst*U <= Rate*TTL, but no bucket is ever dropped there); "
        "holdsHS is evaluated on all of them",
    ],
}
