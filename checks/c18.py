SPEC = {
    "id": "C18",
    "lean_props": ["TunnoxModel.Props.C18"],
    "harness": {
        "pkg": "c18",
        "shims": {"security": "internal/security"},
        "runs": [{"args": [], "corpus": "", "timeout": 900}],
    },
    "rule": "TODO",
    "trusted_base": [],
    "assumptions": [],
}
