SPEC = {
    "id": "C14",
    "lean_props": ["TunnoxModel.Props.C14"],
    "harness": {
        "pkg": "c14",
        "shims": {},
        "runs": [{"args": [], "corpus": "", "timeout": 900}],
    },
    "rule": ("every case drives the real hybrid.Storage over gated tier doubles (cache/shared cache = the real memory.Storage "
             "behind a gate, persistent tier = a map behind a gate); one schedule entry = one tier call of one facade call, "
             "granted by a scheduler that reads quiescence off the goroutine states (no sleeps).  route: every facade method "
             "alone on keys at, just before and just after every prefix of the default tables and of overlapping custom tables, "
             "with and without shared cache / persistence; kv-pairs/-triples: ALL interleavings of get/exists/set/delete pairs "
             "(selected triples) per category x deployment x initial tier contents, also with one persistent-tier failure at "
             "every position; list-pairs/-triples: ALL interleavings of append/remove pairs; random: 3-4 mixed calls, random "
             "schedule, persistent failures; excluded-*: cache-tier failures and initially disagreeing tiers (outside the "
             "theorem's hypotheses, judged by the same predicate).  The observation (per-call first/last step and result, final "
             "tier contents, a final sequential Get, the full tier-call trace with values and TTLs) is compared literally with "
             "the model and judged by `holds`; non-trivial = at least two calls or a fault; distinct = distinct realized case lines"),
    "trusted_base": [
        "Lean 4.33 kernel; axioms propext, Classical.choice, Quot.sound only (audited per theorem on every run)",
        "extractor: DefaultConfig() prefix tables and TTLs, DataCategory constants, translations of isPersistent/isShared/"
        "isSharedPersistent/getCategory/getCacheForKey/cacheTierFor (the model's routing calls them), call skeletons of 23 "
        "facade functions (compared by decide)",
        "differential harness /verif/harness/c14: gated tier doubles, goroutine-state scheduler; lock acquisition is merged "
        "into the first tier call of a critical section (acquire = right mover, release = left mover)",
        "the tiers themselves (memory.Storage, Redis, the remote/JSON persistent stores) are C13's subject: here each tier "
        "call is atomic and a tier holds what was last written to it; cache TTL expiry is not modelled",
    ],
    "assumptions": [
        "WF: injected failures hit the persistent tier only; cache-tier failures are excluded points, run by the harness and "
        "judged by `holds`: two recorded findings (cache-set-fault-swallowed, cache-read-fault-masked) live there",
        "WF: the tiers initially agree (cache tier empty or equal to the persistent tier); disagreeing tiers are run as excluded points",
        "one facade instance: the per-key lock of the repair serialises callers of one node; two nodes doing get-modify-set on "
        "one shared list / racing a write-back through the shared cache are outside the model (needs tier-side atomic list ops / versions)",
        "freshness is stated for get/exists/set/delete histories (plus a final sequential Get), list atomicity for "
        "append/remove histories after all calls returned; mixed histories are compared with the model only",
        "Incr is modelled as the delegated atomic tier counter; SetHash/GetHash/DeleteHash share cacheTierFor with it "
        "(skeletons pinned) but are not driven by the harness",
    ],
}
