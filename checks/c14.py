SPEC = {
    "id": "C14",
    "lean_props": ["TunnoxModel.Props.C14"],
    "harness": {
        "pkg": "c14",
        "shims": {},
        "runs": [{"args": [], "corpus": "", "timeout": 900}],
    },
    "rule": ("every case drives the real hybrid.Storage over gated tier doubles (cache/shared cache = the real memory.Storage "
             "behind a gate, persistent tier = a map behind a gate); one schedule entry = one tier call of one facade call, "
             "granted by a scheduler that reads quiescence off the goroutine states (no sleeps).  route: every facade method "
             "alone on keys at, just before and just after every prefix of the default tables and of overlapping custom tables, "
             "with and without shared cache / persistence; kv-pairs/-triples: ALL interleavings of get/exists/set/delete pairs "
             "(selected triples) per category x deployment x initial tier contents, also with one persistent-tier failure at "
             "every position; list-pairs/-triples: ALL interleavings of append/remove pairs; random: 3-4 mixed calls, random "
             "schedule, persistent failures; excluded-*: cache-tier failures and initially disagreeing tiers (outside the "
             "theorem's hypotheses, judged by the same predicate); evict-*: the cache entry of a persisted key is dropped (TTL expiry / "
             "eviction / cache restart) at EVERY position of every interleaving; two-node-*: the two calls of a pair are issued on two "
             "facade instances sharing the shared cache and the persistent tier (per-node local cache and key lock), all "
             "interleavings; route also drives SetNX, SetList, SetHash/GetHash/DeleteHash and uses the key constants of "
             "internal/constants and internal/cloud/repos (incl. the lock: keys of StorageBasedLock); values returned by reads are "
             "held and looked at again after the run (aliasing probe); list-readers-json: GetList readers beside append/remove over "
             "tiers that answer the list as a JSON string, all interleavings; rmw-vs-write: an append / remove / TTL touch beside a plain "
             "Set / SetList / Delete of the same key, every category and deployment, all interleavings (judged by holdsExclusive on "
             "the tier-call trace and by the final Get).  The observation (per-call first/last step and result, final "
             "tier contents, a final sequential Get, the full tier-call trace with values and TTLs) is compared literally with "
             "the model and judged by `holds`; non-trivial = at least two calls or a fault; distinct = distinct realized case lines"),
    "trusted_base": [
        "Lean 4.33 kernel; axioms propext, Classical.choice, Quot.sound only (audited per theorem on every run)",
        "extractor: DefaultConfig() prefix tables and TTLs, DataCategory constants, translations of isPersistent/isShared/"
        "isSharedPersistent/getCategory/getCacheForKey/cacheTierFor (the model's routing calls them), call skeletons of 23 "
        "facade functions (compared by decide)",
        "differential harness /verif/harness/c14: gated tier doubles, goroutine-state scheduler; lock acquisition is merged "
        "into the first tier call of a critical section (acquire = right mover, release = left mover)",
        "the tiers themselves (memory.Storage, Redis, the remote/JSON persistent stores) are C13's subject: here each tier "
        "call is atomic and a tier holds what was last written to it; cache TTL expiry is not modelled",
    ],
    "assumptions": [
        "WF: injected failures hit the persistent tier only; cache-tier failures are excluded points, run by the harness and "
        "judged by `holds`: two recorded findings (cache-set-fault-swallowed, cache-read-fault-masked) live there",
        "WF: the tiers initially agree (cache tier empty or equal to the persistent tier); disagreeing tiers are run as excluded points",
        "two nodes: proved equal to one node for pure shared data (C14_two_node_shared); for persisted categories and shared lists "
        "the per-node key lock / local cache give three recorded findings (cross-node-writeback, cross-node-local-cache, "
        "cross-node-list-update) with witness theorems; node-local runtime data is not judged across nodes",
        "evictions are environment steps only where a persistent tier backs the cache (WF.evict); elsewhere expiry is deletion by TTL",
        "declaredCrossNode (Spec) is a hand-written list of the key families the code base uses across nodes: the tables must cover it",
        "freshness is stated for get/exists/set/delete histories (plus a final sequential Get), list atomicity for "
        "append/remove histories after all calls returned; mixed histories are compared with the model only",
        "Incr is modelled as the delegated atomic tier counter (the get+set fallback for tiers without CounterStore is not "
        "driven: memory and Redis both implement it); SetPersistent/SetRuntime (explicit category bypass) are skeleton-pinned only",
    ],
}
