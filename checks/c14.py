SPEC = {
    "id": "C14",
    "lean_props": ["TunnoxModel.Props.C14"],
    "harness": {
        "pkg": "c14",
        "shims": {},
        "runs": [{"args": [], "corpus": ""}],
    },
    "rule": "TBD",
    "trusted_base": [],
    "assumptions": [],
}
