SPEC = {
    "id": "C04",
    "lean_props": ["TunnoxModel.Props.C04"],
    "harness": {
        "pkg": "c04",
        "shims": {"session": "internal/protocol/session"},
        "runs": [{"args": [], "corpus": ""}],
    },
    "rule": ("every case drives the real SessionManager.HandlePacket(TunnelOpen) with the real ServerTunnelHandler, "
             "conncode.Service, BuiltinCloudControl and TunnelRoutingTable on memory storage, between in-memory connections; "
             "the pre-existing tunnel is set up by a legitimate listen client (and target) through the same real code, then the "
             "mapping is brought to the state under test. Matrix: identity (no handshake / refused handshake / listen / target / "
             "unrelated client) x credential (mapping id, right secret, wrong secret, resume token, nothing, own other mapping's id, "
             "own other mapping's secret) x mapping state (active, revoked, expired, inactive, missing) x tunnel state (no bridge, "
             "bridge waiting, bridge served, waiting on another node, route to this node without bridge) = 875 cells, all on every run; late matrix: identity (6, incl. the other mapping's target client) x credential (7) x tunnel that "
             "appears while the request polls (local bridge opened by the rightful listen client / route to this node / route to "
             "another node, for mapping M / F) = 252 cells; transport matrix: identity asserted by the transport (8) x credential (7) x tunnel state (4) = 224; config matrix: no "
             "routing table / other node unreachable / route past its expiry x identity (5) x credential (7) = 175; zero-listen matrix: a mapping the server itself listens on (listen client 0) x identity (8, incl. refused "
             "handshake and id-less vouching transport) x credential (5) x tunnel state (4) = 160; expiry matrix: ExpiresAt -29/-5/-1/+2/+5/+29 s around the request x identity (3) x credential (3) x tunnel state (3) = 162; "
             "two-node cases: two real session managers over one storage (node-A with its CrossNodeListener, node-B dialling it), the "
             "attacker's forwarded target names one of 10 variant spellings of the victim's waiting tunnel id; plus random worlds (1-3 "
             "mappings, shared and empty secrets, clients on both sides, malformed and empty payloads, mostly entitled requests with "
             "at most one thing broken); one end-to-end case (mapping created by the real PortMappingService, listen client and "
             "target client both admitted, bytes flow). Observed: the ack on the "
             "requesting connection and the NUMBER of acknowledgement packets written to it, which connection the bridge holds as source/target and which mapping that bridge serves, whether the other node received a "
             "TargetReady frame, whether bytes written by the other end became readable on the requester. "
             "non-trivial = every case (each is a full request); distinct = distinct case strings"),
    "trusted_base": [
        "Lean 4.33 kernel; axioms propext, Classical.choice, Quot.sound only (audited per theorem on every run)",
        "extractor: PortMapping.IsExpired/IsValid/CanBeAccessedBy translated from Go; MappingStatusActive; call skeletons of "
        "handleTunnelOpen, handleExistingBridge, handleTargetBridge, cross-node forward, HandleTunnelOpen, resumeTunnel, "
        "ValidateMapping, auth handlers (compared by decide)",
        "differential harness /verif/harness/c04: in-memory net.Conn pairs, a TCP listener standing in for the other node, "
        "an AuthHandler double that accepts/refuses handshakes (who may authenticate is C03)",
    ],
    "assumptions": [
        "identWF: a connection has a client id only together with the authenticated flag (set by the auth handlers, C03; "
        "skeleton-checked: SetClientID is always followed by SetAuthenticated)",
        "a transport object that asserts a client id / vouches for its peer (GetClientID, CanCreateTemporaryControlConn) is an "
        "input of the model (ConnIdent.streamClientID/.tempOK) and driven with a double; a vouching transport counts as "
        "authentication (provenClient); no transport in the repository implements these interfaces today",
        "a tunnel that appears while a request polls is modelled as one late event (bridge+route on this node, route on this "
        "node, route on another node, any mapping) and driven through the real startSourceBridge / RegisterWaitingTunnel after "
        "the request's acknowledgement is on the wire; the acknowledgement is judged against the state at arrival, the "
        "attachment against the tunnel that appeared (a request acknowledged at arrival may be dropped later without attachment)",
        "GenericRepository.Get coalesces concurrent reads (singleflight): a read that starts after a completed write can be handed "
        "the pre-write value of a read already in flight (observed: notifyTargetClientToOpenTunnel's read vs. a revocation, "
        "about 1 in 1000 runs); the harness drains in-flight reads after it changes a mapping, so 'mapping state when the "
        "request arrives' is well defined; requests overlapping such a read are outside the quantifier",
        "secret comparison validateWithSecretKey is a hand-mirrored one-liner (skeleton-checked, exercised by the wrong-secret cells)",
    ],
}
