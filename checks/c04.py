SPEC = {
    "id": "C04",
    "lean_props": ["TunnoxModel.Props.C04"],
    "harness": {
        "pkg": "c04",
        "shims": {"session": "internal/protocol/session"},
        "runs": [{"args": [], "corpus": ""}],
    },
    "rule": "",
    "trusted_base": [],
    "assumptions": [],
}
