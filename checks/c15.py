SPEC = {
    "id": "C15",
    "lean_props": ["TunnoxModel.Props.C15"],
    "harness": {
        "pkg": "c15",
        "shims": {"node": "internal/core/node"},
        "runs": [{"args": [], "corpus": ""}],
    },
    "skip_model_prefix": ["free"],
    "rule": ("histories of Generate/Release (real StorageIDGenerator / IDManager) and AllocateNodeID/renew/Release (real "
             "NodeIDAllocator) by several instances on one store; candidates come from the real random.Int64/String fed by a "
             "scripted crypto/rand.Reader (candidate space of 1-6 ids, so every generation contends); stores: fake-clock double "
             "with and without SetNX, memory, hybrid(memory,memory), redis (miniredis), hybrid(memory per node, shared redis); "
             "hybrid without shared cache (the default single-node configuration); IDManager.Release*ID is the release path when "
             "the default TTL is used; the final markers are cross-checked through a fresh observer node's IDManager.Is*IDUsed; "
             "candidates include the edges of random.Int64's modulo (0, range-1, range, 2^63, 2^64-1) and the smallest/largest "
             "8-character ids; gated wrappers force the schedule (one step = one storage call); exhaustive: 2 threads x 3 ids x all pre-existing "
             "subsets x all schedules of length 4/5; random: 1-4 threads, ticks around the marker TTL; exhaustion at "
             "MaxAttempts and at 1000 node slots; single transient storage fault (schedule code 2: the storage call of that step, in "
             "the shared tier for hybrid stores, returns an error): every fault position x every schedule of length 4/5 x "
             "2-3 nodes each with its own hybrid store over one shared tier, plus one random fault in a third of the random "
             "histories; expiry GC: `c` = a CleanupExpired pass through the instance's storage object (hybrid delegates to its "
             "local cache) and directly on the shared claim store; gated: every schedule of length 5 over two claimants and a "
             "sweeper after the markers lapsed; free-running: 3-8 claimants and 1-2 sweepers released together onto "
             "expired-unswept markers on memory / hybrid(memory) / single-node hybrid, the map padded with 3000 unrelated keys so "
             "that claims arrive during a pass; lease clause: the caller's ctx stays live while a node runs, the heartbeat goroutine started by the claim is "
             "identified by an inherited pprof label and its liveness is sampled from goroutine profiles; the `w` op is the 30 s "
             "ticker firing: it renews (the loop's own renewNodeID) iff that goroutine is alive, else reports `dead`; a tick whose renewal fails although no storage fault was injected is reported as `dead` too (the claim "
             "would lapse while the node runs); renewal programmes (1-2 holders ticking for 4 lease periods, then a late node) run "
             "on every backend incl. hybrid over redis / memory and the single-node hybrid; time is "
             "virtual (fake-clock double, miniredis FastForward); release clause: a further Release() of an allocator that already released its id, driven through the real "
             "code, every schedule of length 6 over three nodes on every store kind (a release-own must answer an unreleased "
             "hand-out to the same caller); free-running contention without gates, incl. 700 rounds (quick) of N in {2,4,8} generators/allocators "
             "released behind a spin barrier onto candidates whose pre-existing markers are absent / live / expired-not-yet-swept "
             "(1 ms TTL, real 5 ms wait) on memory, hybrid(memory), redis, hybrid(redis) and the double; non-trivial = has threads; distinct = "
             "distinct case string"),
    "trusted_base": [
        "Lean 4.33 kernel; axioms propext, Classical.choice, Quot.sound only (audited per theorem on every run)",
        "extractor /verif/extract: MaxAttempts, id ranges, TTLs, prefixes, Charset, call skeletons of Generate/tryMarkAsUsed/"
        "Release/AllocateNodeID/tryAcquireNodeID/heartbeatLoop/renewNodeID regenerated into Gen/IDGen.lean",
        "harness /verif/harness/c15: gated store wrappers, scripted crypto/rand.Reader, fake-clock store double, miniredis",
        "the store behaves as the sequential map with expiry of Model/C15 (SetNX atomic): observed on memory, redis and "
        "hybrid stores by the harness, proved for none of them here (C13 covers the memory backend)",
    ],
    "assumptions": [
        "WF (scope): liveness is bounded by the marker TTL (30 days for ids, 90 s lease for node slots, renewed by the "
        "heartbeat) - an id whose marker expired may be handed out again; the reference live-set of the predicate expires "
        "markers the same way",
        "node-id leases: the holder's ticker fires in time (heartbeat 30 s < lease 90 s; both literals, the 30 s ticker itself is "
        "not run - its firing is a schedule step); that a firing renews is observed (heartbeat goroutine alive) and proved for the model; a renewal after the lease lapsed re-asserts "
        "the claim unconditionally (not a counted violation, stated)",
        "crypto/rand never fails (Go >= 1.24 aborts the process instead), so the `continue` on a random error is not modelled",
        "storage faults are transient errors of one call that is not applied (error-after-apply, e.g. a lost Redis reply, is "
        "not modelled); faults hit the shared tier only (node-local caches do not fail); a caller does not retry a failed Release",
        "fallback path (store without SetNX) guarantees uniqueness for one generator instance only: known finding "
        "fallback-multi-instance; no store built by the server factory lacks SetNX (checked by the caps case)",
        "a Release() retried after a FAILED Release is not driven: on the unchanged code it panics (close of closed stopCh), "
        "which is a robustness defect outside this property",
        "`strict` corpus cases are judged with a reference live-set that never expires (known finding "
        "marker-ttl-shorter-than-entity); everything else is judged within the marker lifetime",
        "GenerateUniqueID wrappers (id_manager.go) are compositions of Generate and Release of the own id by one caller and "
        "are covered as such histories; their external checkFunc is not modelled",
    ],
}
