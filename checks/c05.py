SPEC = {
    "id": "C05",
    "lean_props": ["TunnoxModel.Props.C05"],
    "harness": {
        "pkg": "c01",
        "shims": {"stream": "internal/stream"},
        "runs": [{"args": ["-mode", "raw"], "corpus": "raw", "gomemlimit": "12GiB"}],
    },
    "strip_obs": r" alloc \d+",
    "skip_model_prefix": ["rawbig"],
    "rule": ("hostile byte streams fed to the real ReadPacket under recover + watchdog + TotalAlloc delta: every type byte, "
             "adversarial length fields, truncation of valid streams at every offset, structure-aware mutations, random "
             "bytes, gzip members with extreme expansion ratios; non-trivial = stream longer than one byte; distinct = "
             "distinct (stream prefix, length, chunking)"),
    "trusted_base": [
        "Lean 4.33 kernel; axioms propext, Classical.choice, Quot.sound only (audited per theorem on every run)",
        "extractor /verif/extract: MaxPacketBodySize and type predicates regenerated into Gen/*.lean",
        "differential harness /verif/harness/c01 (raw mode); reference inflate = Go compress/gzip with a hard limit",
        "absence of Go panics is observed by the harness run (exploration), not proved",
    ],
    "assumptions": [
        "gzip inflate and JSON decoding are parameters of the model (tables measured from the real libraries per case)",
        "allocation bound checked on the implementation: TotalAlloc delta <= (packets+1) * 8 * MaxPacketBodySize on one goroutine",
        "session dispatcher part (HandlePacket on a fresh connection) is covered by the c05d harness run when present",
    ],
}
