SPEC = {
    "id": "C05",
    "lean_props": ["TunnoxModel.Props.C05"],
    "harness": {
        "pkg": "c01",
        "shims": {"stream": "internal/stream", "adapter": "internal/protocol/adapter"},
        "runs": [{"args": ["-mode", "raw"], "corpus": "raw", "gomemlimit": "12GiB"}],
    },
    # second harness package: the dispatcher half (HandlePacket on a fresh connection of a full server stack)
    "extra_harness": [{"pkg": "c05d", "shims": {"adapter": "internal/protocol/adapter"}, "runs": [{"args": [], "corpus": "disp"}]}],
    "strip_obs": r" alloc \d+",
    "skip_model_prefix": ["rawbig", "loop", "retain"],
    "rule": ("hostile byte streams fed to the real ReadPacket under recover + watchdog + TotalAlloc delta: every type byte, "
             "adversarial length fields, truncation of valid streams at every offset, structure-aware mutations, random "
             "bytes, gzip members with extreme expansion ratios (zero-filled and JSON-shaped); non-trivial = stream longer "
             "than one byte; distinct = distinct (stream prefix, length, chunking). Dispatcher half: packets built exactly "
             "as ReadPacket builds them handed to the real SessionManager.HandlePacket on a fresh connection of a full "
             "server stack (all 256 type bytes x {no body, junk, handshake-/tunnel-open-shaped JSON, command packet}; every "
             "command type x sample bodies; JSON mutations: wrong value types, huge numbers, deep nesting, truncation); every "
             "type byte x 13 tiny bodies plain and as valid gzip members; read-loop half: hostile streams through the real "
             "BaseAdapter.handleConnection on the same stack (returns, connection closed and forgotten, dispatch count <= "
             "stream length)"),
    "trusted_base": [
        "Lean 4.33 kernel; axioms propext, Classical.choice, Quot.sound only (audited per theorem on every run)",
        "extractor /verif/extract: MaxPacketBodySize and type predicates regenerated into Gen/*.lean",
        "differential harness /verif/harness/c01 (raw mode); reference inflate = Go compress/gzip with a hard limit",
        "absence of Go panics is observed by the harness run (exploration), not proved",
    ],
    "assumptions": [
        "gzip inflate and JSON decoding are parameters of the model (tables measured from the real libraries per case)",
        "allocation bound checked on the implementation: TotalAlloc delta <= (packets+1) * 8 * MaxPacketBodySize on one goroutine",
        "dispatcher: the routing table of HandlePacket is translated from the source and proved total; what the handlers answer is not modelled (any error or reply is accepted, a panic/timeout/crash is a failing input)",
        "a command-typed TransferPacket whose CommandPacket is nil makes handleCommandPacket dereference nil; ReadPacket never produces such a packet (the body is always JSON-decoded into a struct), so it is outside 'decodable packet' (observation, not a finding)",
    ],
}
