SPEC = {
    "id": "C17",
    "lean_props": ["TunnoxModel.Props.C17"],
    "harness": {
        "pkg": "c17",
        "shims": {"mapping": "internal/client/mapping", "conncode": "internal/cloud/services/conncode"},
        "runs": [{"args": [], "corpus": ""}],
    },
    "skip_model_prefix": ["free"],
    "rule": "TBD",
    "trusted_base": [],
    "assumptions": [],
}
