SPEC = {
    "id": "C17",
    "lean_props": ["TunnoxModel.Props.C17"],
    "harness": {
        "pkg": "c17",
        "shims": {"mapping": "internal/client/mapping"},
        "runs": [{"args": [], "corpus": ""}],
    },
    "skip_model_prefix": ["free"],
    "rule": ("admissions and releases against the REAL code of every limit: SessionManager.CreateConnection (server-wide cap), "
             "SessionManager.RegisterControlConnection -> ClientRegistry.Register (control cap, evict-oldest; `ctrlx`: the registry "
             "itself with stream doubles whose Close() is a gate, so a registration can be stopped inside the Close() of its victim "
             "while others run: caps 0,1,2,5 x occupancy cap-1, cap x 2-3 threads x 1-2 registrations, all interleavings), "
             "TunnelRegistry.Register, usage update x revocation x activation at the mapping quota (`u` = RecordMappingUsage, `w` = "
             "RevokeMapping of mapping 0; the return of GetPortMapping is a gate, so read and write-back are separate steps and "
             "the record lock shows as a second mutex; all interleavings with 1-2 activations at quota and quota-1), the slot counter "
             "at full speed (`free slot`: T goroutines acquire / hold / release through "
             "acquireConnectionSlot and releaseConnectionSlot 60 000 times each - the windows inside them have no injectable call; "
             "`free race`: the same race through the real paths, tunnel close vs arriving connection at limit-1 occupancy with a "
             "swept delay, then arrivals until one is refused), the slot life cycle of the mapping handler (`slot` cases: the handler runs over a wrapper "
             "of its real tunnel manager whose RegisterTunnel is a gate before and after, so Tunnel.Close can land before the "
             "registration, in the window before Tunnel.Start, or after the start; all schedules of steps and closes of 2 "
             "connections of length 6 (thorough 7), histories with 1-2 tunnels closed at each point of their life followed by "
             "limit+1 complete openings, random schedules of up to limit+3 connections; `f<i>` = the step's injectable call fails: "
             "PrepareConnection / CheckMappingQuota / DialTunnel / RegisterTunnel), CreateConnection also with the id from the "
             "writer only, through AcceptConnection and with server-generated ids (`conng`), revoked codes / mappings in the "
             "client's index (`dead`), default quotas 10 / 50 at quota-1, code occupancy = max(index count, handed-out codes still "
             "valid), revocation through the service (`v`: RevokeConnectionCode of the own code, five gated storage calls outside the "
             "quota mutex; `v<k>`: the k-th call fails - fault-injecting store wrapper) racing a request at the quota, the racer placed "
             "in <= 2 blocks anywhere among the revocation's steps; the code occupancy is the number of codes that are COUNTED "
             "(index + by-id copy) OR can be ACTIVATED (scan of the by-code copies), "
             "BaseMappingHandler.handleConnection (per-mapping limit from the mapping config and from the user quota; real Tunnel objects "
             "over net.Pipe), conncode.Service.CreateConnectionCode over ConnectionCodeRepository over a gated memory storage (one step = "
             "one storage call) and ActivateConnectionCode with gated GetClientPortMappings/CreatePortMapping over the real port-mapping "
             "service and repository; gates force the schedule (GetConnectionID() of the fake reader between check and insert; every "
             "storage call / repository call; the harness names NO lock of the code under test: a granted thread that ends up parked "
             "inside a sync lock of repo code is recognised from the goroutine dump, reported as `blk`, and advances by itself when "
             "the holder unlocks - any locking scheme, or none, can be driven); after EVERY step the "
             "occupancy is read as an outside observer would (map sizes, live tunnels / slot counter, active codes / mappings in "
             "storage) and a digest of the whole state is compared around the steps of a refused request; exhaustive: 2-3 racing "
             "admissions x limits 0,1,2,3 x occupancy limit-1, limit, 0 x ALL interleavings of their atomic steps (code quota: every "
             "7th interleaving in quick), admissions racing releases; random: 1-6 threads, limits 0-5, programs of admits/releases, "
             "bursty schedules; N >= 3 racers (holder / waiter / newcomer): 3 activations of one client at occupancy limit-2 and "
             "limit-1, alone and mixed with a request of another client, ALL interleavings (quick: all at limit 2 / occupancy 0, "
             "sampled elsewhere; thorough: all), 4 requests sampled, code quota by random boundary interleavings of 3-5 requests, "
             "3 and 4 racers for the other protocols exhaustively; free-running: 2-8 requests released by one spin barrier at "
             "limit-2 / limit-1 without gates, repeated on fresh state (mapping handlers are held "
             "inside DialTunnel until all are decided, so max = simultaneously admitted); two service instances on one store (known "
             "finding); non-trivial = has threads; distinct = distinct case string"),
    "trusted_base": [
        "Lean 4.33 kernel; axioms propext, Classical.choice, Quot.sound only (audited per theorem on every run)",
        "extractor /verif/extract: defaults (DefaultMaxConnections, DefaultMaxControlConnections, conncode.DefaultConfig), control "
        "skeletons (every guard, lock call and their order) of CreateConnection, ClientRegistry.Register, findOldestConnectionLocked, "
        "TunnelRegistry.Register, acquireConnectionSlot, releaseConnectionSlot, connectionLimit, CountActiveByTargetClient and call "
        "skeletons with lock/defer/guarded-field facts of handleConnection, CreateConnectionCode, ActivateConnectionCode, "
        "ListByTargetClient, ConnectionCodeRepository.Create/GetByID/GetByCode regenerated into Gen/Limits.lean and pinned by theorems",
        "shims BaseMappingHandler.VerifAcquireSlot / VerifReleaseSlot (the two unexported halves of the slot protocol)",
        "shim BaseMappingHandler.VerifSetTunnelManager (installs the gated wrapper of the handler's own tunnel manager)",
        "harness /verif/harness/c17: gate, gated storage and repository wrappers, fake reader / client / adapter, goroutine-dump "
        "recognition of a thread parked in sync.Mutex/RWMutex of repo code (three consecutive dumps); one shim only: "
        "BaseMappingHandler.VerifHandleConnection -> handleConnection",
        "sync.Mutex.Unlock wakes waiters in arrival order when nobody else competes (decides which waiter the model advances; "
        "a different order would show as a disagreement, not as a missed violation)",
        "sync.RWMutex / sync.Mutex / atomic.Int32.CompareAndSwap / the memory storage's single calls are atomic (one model step each)",
    ],
    "assumptions": [
        "WF: the initial occupancy is within the cap (capOk limit pre); limit 0 means unlimited for the session caps, the tunnel "
        "registry and the mapping handler (`> 0 &&` guard, extracted) and means 'nothing allowed' for the two conncode quotas (no guard "
        "in the source; the model follows the source)",
        "record requests (usage update, revocation of a mapping): PARTIAL on the Lean side - C17_main_mutex covers them with all "
        "requests on one mutex; with the record lock as a second mutex (what the driver runs) only decide-checked examples and the "
        "witness C17_rmw_stale_witness exist; the source tie is the pair of skeleton pins (lock before read)",
        "code quota: a code is admitted for the observer when its by-code record exists (the request still writes the by-id copy "
        "and the index entry inside the critical section: `post = 2`); the count is modelled as the scan it is (one record read per "
        "index entry, counted iff active when read), revoked codes stay in the index; single storage faults are injected into "
        "revocations only (creation faults: rollback paths, outside the quantifier)",
        "quotas (code, mapq): serialisation hypothesis of the proof = one mutex per service instance around count+check+create "
        "(pinned by the skeletons of CreateConnectionCode / ActivateConnectionCode); proved for any number of concurrent requests "
        "(own and other clients) to ONE service instance; two instances on one store "
        "exceed the quota: known finding quota-multi-node (witness theorem)",
        "code quota: the model takes the count from the index read (GetList); the n record reads that follow are no-ops. A release "
        "(delete) that lands between the index read and the record read of the same code makes the implementation count one fewer "
        "than the model (still >= the codes present at the check, so safe); such schedules are not generated",
        "slot counter: proved at instruction granularity with releases racing admissions (C17_ctr_main / C17_ctr_exact, release = "
        "one atomic Add); the harness reaches the windows inside acquire / release only by parallel stress - a regression there "
        "is found with overwhelming probability, not with certainty (pins flow_acquireConnectionSlot / flow_releaseConnectionSlot "
        "break deterministically)",
        "mapping handler: the harness cannot stop between Load and CompareAndSwap; that granularity is covered by the theorem "
        "C17_mapCas and by the pinned control skeleton of acquireConnectionSlot, and exercised only by the free-running cases",
        "release of a mapping slot is asynchronous (the tunnel winds down on its own goroutines): the harness waits up to 2 s for "
        "the occupancy to drop before it reads it; the occupancy of a mapping is its number of live tunnels (exported tunnel "
        "manager) - the private slot counter is not read, a leaked slot shows up as a later refusal the model does not predict",
        "ctrlx: while a registration is stopped inside the registry's critical section no observer can read the registry (it "
        "would wait for the lock); the harness then reports what it knows without the lock (connections whose Register returned "
        "nil and whose stream no eviction has closed) - on the code as it is this coincides with the registry whenever both "
        "can be read; the theorem C17_ctrlX is for programs of registrations only, one critical section (pinned: "
        "lock_sections_ClientRegister); the two-section variant has the witness C17_ctrl_twoSections_witness",
        "injectable calls that are NOT gated: the Close() of the stream of a connection refused late by CreateConnection (it runs "
        "after the lock was released and after the refusal is decided), loggers",
        "expiry of codes / mappings, storage faults and the stale-connection sweep are outside this property's quantifier",
        "slot cases: the counter activeConnCount itself is not read (private); theorem C17_slot_counter proves 0 <= count <= "
        "limit on the model, the harness sees a negative counter through its consequence (an acquisition while `limit` slots are "
        "held, then more than `limit` live tunnels)",
        "internal/stream/quota_enforcer.go enforces traffic quotas only (no count limits) and is not modelled",
        "free-running cases are decided by holdsFree (cap on the maximum and on the final occupancy, bookkeeping, no state change "
        "when everything was refused); they are observed, not proved",
    ],
}
