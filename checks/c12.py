SPEC = {
    "id": "C12",
    "lean_props": ["TunnoxModel.Props.C12"],
    "harness": {
        "pkg": "c12",
        "shims": {"client": "internal/client", "mapping": "internal/client/mapping"},
        "runs": [{"args": [], "corpus": ""}],
    },
    "strip_obs": r" stalls \d+( \w+ \d+)*",
    "rule": ("the real iocopy.Bidirectional / iocopy.UDP between scripted fake endpoints whose every Read is gated by a "
             "scheduler (the schedule token order is part of the case and is forced on the two relay goroutines). TCP: all "
             "pairs of short scripts (0-3 chunks, empty reads, EOF/error tails, tail fused with the last chunk) x ALL "
             "interleavings of the two goroutines; refused writes at every index, full close racing the other direction, "
             "chunks around the 32 KiB copy buffer; PASSIVE peers (end only after the relay signalled the end of the other "
             "direction) against a side that FAILS (read error alone / fused with data, refused write) x every interleaving "
             "x endpoint kinds. ENDPOINT KIND is a dimension of every TCP case: socket with CloseWrite / "
             "iocopy.NewReadWriteCloser(conn, conn, closeFn) with reader = writer = one Close-only transport conn (exactly how "
             "mapping/base.go, target_handler.go createTunnelRWC and socks5_tunnel.go build the tunnel side) / separate reader and "
             "Close-only writer objects / writer with neither; all 16 kind pairs x all interleavings of the half-close orders, "
             "the production pair (cw, same) on every second case of every other generator. UDP: every cut offset x every split position of short encodings with "
             "EOF and error tails, malformed/illegal-length and random streams, a flush-timer tick at every position of "
             "short datagram sequences, prefix/buffer size boundaries (255/256/65535/65536, half-full batch, 300 KB window), "
             "all interleavings of the two goroutines x every combination of endings (eof/err/blocked-until-closed). "
             "ASYNCHRONOUS LOCAL SOCKET: iocopy.UDP against the real mapping.UDPVirtualConn (the localConn of tunnel.runDataCopy) "
             "over a gated UDP socket: reads that end inside the next record x sends of the session's writeLoop delayed past "
             "the following reads/compactions (every split position, sampled interleavings of t and s). "
             "REAL UDP SOCKET: iocopy.UDP against a loopback *net.UDPConn (udpBatchWriter / sendmmsg) read concurrently by the "
             "application: 1..70 small datagrams (batch edges 32/64) and bursts of large ones from one tunnel read (10x8000, "
             "32x4000, 2x40000, mixed up to 65507: more than 64 KiB / 128 KiB per batch). "
             "SOCKS5 UDP-ASSOCIATE tunnel codec (udpTunnelConn, the listen-side peer of iocopy.UDP): the real SendPacket "
             "produces the wire, the real ReceivePacket reads it back; a burst coalesced into ONE read, k records per read, every "
             "split position, one-byte reads x every cut offset x both tails, prefix-boundary sizes, random bursts/partitions. "
             "SLOW SINKS: every Write of a fake endpoint can stay in progress (the double keeps a REFERENCE to the caller's "
             "slice and copies it only when the scheduler lets the Write complete, as a conn under back-pressure does): "
             "flush-in-progress (ticker / half-full / EOF flush) x datagram arrival x next flush trigger enumerated for short "
             "event lists, slow UDP-socket writes x tunnel progress, slow TCP writes x the other direction running / "
             "half-closing / being refused (all per-direction hold patterns, interleavings sampled in quick, wider in thorough). "
             "non-trivial = every case except corpus duplicates; distinct = distinct case strings"),
    "trusted_base": [
        "Lean 4.33 kernel; axioms propext, Classical.choice, Quot.sound only (audited per theorem on every run)",
        "extractor /verif/extract: CopyBufferSize, the window/batch sizes and comparison bounds inside iocopy.UDP, call skeletons of Bidirectional/UDP/runDataCopy regenerated into Gen/Iocopy.lean",
        "differential harness /verif/harness/c12 (gated fake endpoints, watchdog) + export shim harness/shims/client (constructs the unexported udpTunnelConn as CreateUDPTunnel does); compiled Lean driver as model and as holds-oracle",
        "goroutines actually exiting, the real 20 ms flush ticker and the sendmmsg path for *net.UDPConn are observed/not modelled: exploration level",
    ],
    "assumptions": [
        "WF (UDP): datagrams carried by the encoding have 1 <= len <= 65535 (zero-length datagrams are dropped, a 65536-byte read is mis-encoded as length 0: outside WF, replayed)",
        "WF (UDP): not both sides block forever (then the relay rightly never returns)",
        "WF (TCP): not both peers passive; a passive peer sits behind an object with CloseWrite (for a transport without half-close — the wrapper kinds — a passive peer is released only by the final Close, which waits for both directions). This configuration IS reachable in production: client transports websocket, KCP and QUIC give connections without CloseWrite, and mapping/base.go, target_handler.go and socks5_tunnel.go wrap them with NewReadWriteCloser (only the TCP transport's *net.TCPConn forwards the half-close). Recorded as known finding C12-passive-peer-closeonly-tunnel, replayed against the real wrapper on every run (corpus/C12/known-passive-closeonly.txt); not repaired: forwarding the end of a direction over these transports needs a protocol message, tearing the pair down on error changes delivery semantics",
        "tunnel Writes of the UDP->tunnel goroutine succeed while the relay runs (its flush-error branches are not modelled; a refused Write on the UDP socket is: uwfail); TCP sinks refuse a whole Write (no short writes)",
        "a schedule step is one loop iteration of one goroutine (Read .. next Read), or the begin / the end of a Write that stays in progress; the two directions share no state except through the endpoints",
        "the real 20 ms flush ticker cannot be stopped: a run in which it fired outside the scheduled windows before a scheduled slow write is detected and repeated (stat reruns_unscheduled_tick)",
        "asynchronous local socket (mapping.UDPVirtualConn): its send loop stops when the relay closes the session; the harness lets the socket take what is queued before the end of the tunnel is delivered (a datagram still queued at teardown may be dropped by the unchanged code: UDP loss at close, not counted against the property); no local->tunnel traffic and no fused tail in these cases",
        "NoOp transformer (the rate limiter is C02's subject)",
    ],
}
