SPEC = {
    "id": "C03",
    "lean_props": ["TunnoxModel.Props.C03"],
    "harness": {
        "pkg": "c03",
        "shims": {"security": "internal/security"},
        "runs": [{"args": [], "corpus": ""}],
    },
    "rule": "",
    "trusted_base": [],
    "assumptions": [],
}
