SPEC = {
    "id": "C03",
    "lean_props": ["TunnoxModel.Props.C03"],
    "harness": {
        "pkg": "c03",
        "shims": {"security_c03": "internal/security"},
        "runs": [{"args": [], "corpus": ""}],
    },
    "rule": ("one case = one history of handshake events executed against a fresh REAL stack (ServerAuthHandler + SessionManager + "
             "built-in CloudControl on memory storage + SecretKeyManager + BruteForceProtector + IPManager + RateLimiter); "
             "valid responses are real HMAC-SHA256 values computed by the harness from the challenge it read back. quick: every "
             "history of length <= 3 over a 34-event alphabet (2 connections x {first-connect, phase-1 A/B, phase-2 A/B valid-latest, "
             "stale, foreign key, foreign connection's challenge, junk, tunnel-type phase 1/2, malformed} + ban/unban/blacklist/expire/blacklist a CIDR range/permanent ban/lapsed temporary ban/whitelist/restart = a new IPManager loading the lists from the same storage/failing credential generation) "
             "plus every history of length <= 3 over a 12-event alphabet on one connection for a usable client A and a client V whose stored secret is unusable (sealed under another master key / empty ciphertext / legacy plaintext field only; phase 1 A/V, phase 2 naming V with the empty key, V's ciphertext bytes as key, V's legacy plaintext, A's key, V's original secret, phase 2 naming A valid / empty key, tunnel type, re-sealing events), plus every history of length <= 4 (thorough: 5) over a 9-event alphabet for the expiry gate (phase 1/2 for A, expire, never-expire, claim by a user via UpdateClient, BindToUser, ExtendExpiration, re-seal), plus 33 (thorough: 72) long histories of 63…300 (thorough: …2049) phase-1 requests spread over connections with a recorded response replayed at several offsets (challenge values must never repeat), plus 12000 seeded random histories of length <= 14 over 2-3 connections sharing or not sharing addresses, 1-3 clients, "
             "unknown ids, id 0, deleted clients, clients with unusable stored secrets, degenerate key terms, limiter bursts 1-3, refills, unknown connections; thorough: length <= 4 "
             "exhaustive plus 60000 random. After every event the harness reads the response written, IsAuthenticated/GetClientID/"
             "pending challenge of every connection, GetControlConnectionByClientID of every client, IsBanned/IsAllowed of every address; "
             "the model must produce the identical observation and the theorem's predicate `holds` must accept the implementation's. "
             "non-trivial = at least two events; distinct = distinct case strings"),
    "trusted_base": [
        "Lean 4.33 kernel; axioms propext, Classical.choice, Quot.sound only (audited per theorem on every run)",
        "extractor: security.DefaultMaxFailures/DefaultPermanentBanAt, AnonymousExpirationDays; ClientConfig.IsExpired translated; call "
        "skeletons of HandleHandshake, handleFirstConnection, handleChallengePhase1/2, VerifyResponse, ComputeResponse, GenerateChallenge, "
        "session handleHandshake, UpdateAuth, removeConnectionLocked, RecordFailure and the source text of their if-conditions (compared by decide)",
        "differential harness /verif/harness/c03 (fresh real stack per history; shim security.VerifRefillIP drops a limiter bucket)",
        "crypto is symbolic in the model: secrets pairwise distinct, server nonces never repeat — observed, not only assumed: the harness numbers challenge strings by "
        "first occurrence and `holds` (H4) rejects a challenge value that was handed out before, HMAC-SHA256 collision free; AES-GCM storage of the secret = a state usable | undecryptable | empty | legacy; Decrypt succeeds only for usable",
    ],
    "assumptions": [
        "IPManager whitelist: exact entries only (whitelisted ranges not exercised); CIDR blacklist entries are /24 ranges of two addresses each; only the IPManager is re-created on restart; no blacklist entry expires inside a history",
        "BruteForceProtector: the whole history lies inside one failure window (recent = total failures); a ban is permanent, long temporary, or a temporary one that has lapsed before the next event (`bans`)",
        "RateLimiter: integral tokens, no refill inside a history (Rate 0 in the harness); refill = an explicit event",
        "GenerateChallenge never fails (crypto/rand); GenerateAnonymousCredentials fails only through the injected `issue fail` fault",
        "the asynchronous unban that IsBanned starts for a lapsed ban is not a step of the model: the harness forces the one interleaving that matters (`reban`: the address is banned anew before that unban runs, single P, no yield in between) and the model says the new ban stands (= banp / ban)",
        "handshake messages of one server are processed one at a time (the session layer's per-connection read loop); "
        "ControlConnection.ClientID/Authenticated are plain fields and concurrent handshakes on one connection are out of scope",
        "the client index holds object pointers; the model keeps connection ids, which coincide with object identity for "
        "connections that are in connMap (the only ones the registry indexes or unindexes)",
    ],
}
