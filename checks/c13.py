SPEC = {
    "id": "C13",
    "lean_props": ["TunnoxModel.Props.C13"],
    "harness": {
        "pkg": "c13",
        "shims": {},
        "runs": [
            {"args": ["-mode", "mem"], "corpus": "mem"},
            {"args": ["-mode", "red"], "corpus": "red"},
            {"args": ["-mode", "conc"], "corpus": "conc"},
            {"args": ["-mode", "repo"], "corpus": "repo"},
        ],
    },
    "skip_model_prefix": ["conc", "hammer", "sweep", "burst", "repo"],
    "rule": ("case = one history of storage calls executed on the real backend: (mem) sequential histories on memory.Storage with "
             "real sleeps (ttl in {0, 40 ms, 1 h, negative, 25 h}, sleep 60 ms): exhaustive matrix setup x (sleep|no sleep) x every call "
             "kind x probes, plus random histories over <= 3 keys; (red) the same call grammar on redis.Storage over miniredis "
             "(FastForward) restricted to the repositories' key shapes; (sched) every interleaving of 2-3 callers x 2 calls forced by a "
             "gated double; (conc) free-running callers released by one flag, hundreds of rounds per case, one line per distinct "
             "outcome, checked for linearizability by the Lean spec; (hammer) reader/writer stress in a child process; (sweep) the real sweep vs concurrent re-writes of expired keys; (repo) real lock / cleanup manager / generic repository / typed adapters over both backends: ttl-pair matrices + random scenarios; (alias) exhaustive setup x sharing x mutation x probe plus random histories with held answers; (burst) exhaustive 2 callers x 1 call (11 writers incl. SetNX/CAS/Incr/Append/SetHash/CleanupExpired x writers+readers) on one key that is absent / live / permanent / expired-unswept of every value kind, plus 3-caller and random bursts. "
             "non-trivial = more than one call; distinct = distinct case line"),
    "trusted_base": [
        "Lean 4.33 kernel; axioms propext, Classical.choice, Quot.sound only (audited per theorem on every run)",
        "extractor /verif/extract: DefaultDataTTL, the per-method call/lock skeletons of memory.Storage and the storage call sites of generic_repository / storage_based_lock / cleanup_manager regenerated into Gen/StorageMem.lean",
        "differential harness /verif/harness/c13; compiled Lean driver as model and as holds-oracle (sequential spec, repository view, linearizability search)",
        "Redis itself is not modelled: the Redis half is correspondence of redis.Storage over miniredis with the reference spec (exploration)",
    ],
    "assumptions": [
        "WF: clock readings of a history are non-decreasing (Go's monotonic clock)",
        "value domain: strings (JSON documents are strings), int64, lists of those, hashes field -> those; RemoveFromList/CompareAndSwap on uncomparable Go values (slices/maps as members) panic and are outside the domain",
        "atomic-step granularity = one critical section of m.mu per method (lock facts extracted from the source and checked by `lock_facts`); GetHash/GetAllHash/GetExpiration run a second section that only removes an entry re-checked as expired (modelled as the invisible call gcKey); data races below the lock are visible only to the hammer/conc runs",
        "Get/GetList hand out the stored map/slice itself (known finding get-returns-live-hash): conc cases use hash calls on key h only and never `get h`; hammer cases are holds-only (expected observation `ok`), a crash of the child process is the failing observation",
        "one critical section per method is a HYPOTHESIS of C13_linearizable (atomicCalls), discharged from the extracted skeletons by atomic_calls / section_counts (number of Lock/RLock regions per method pinned; a second region must re-check expiry before delete); a sweep split into scan + delete phase is covered by C13_sweep_split_invisible only if the delete phase re-checks (sweep_blind_witness for the unchecked variant)",
        "sweep cases: real CleanupExpired (loop) / StartCleanup ticker against concurrent re-writes of thousands of expired keys; per key the history set-sleep-rewrite-reads is sequential (no Delete issued), the reported key history is judged by holdsSeq",
        "burst cases: sequential prefix (real sleeps: 2 ms lifetimes + 6 ms sleep leave expired-but-unswept entries; live keys use 1 h / permanent), then free-running callers on 16 independent stores x 2 rounds (thorough 12), then a sequential probe; judged by holdsBurst = C13_linearizable_from's predicate (order search from the prefix's end state + probe); no `get` inside a burst (known finding get-returns-live-hash)",
        "alias cases: the caller keeps GetList answers without copying (registers), looks at them again and stores them again under other keys; judged by holdsAlias (value semantics); the reference-semantics model (Model/C13Alias.lean: slices, backing arrays, in-place append into spare capacity, runtime-chosen capacities as parameters) is proved to refine it for every history (C13_alias_refines); callers never write through a held slice themselves; Set(k, []any) by a caller (not via SetList) still stores by reference and is outside the driven shapes",
        "repo cases: the real StorageBasedLock / CleanupManager / GenericRepositoryImpl / TypedFullStorageAdapter run the same scenario over memory and over Redis through a recording store; component answers must coincide (holdsSame) and every recorded storage call is judged as an ordinary mem/red history; lifetimes 0 | short | sub-second (Redis 0.5 s) | long",
        "start/stop (periodic sweep lifecycle) and cl (which of two Redis clients) answer nothing and are invisible to the reference; watch answers like get",
        "linearizability theorem: one burst at a fixed clock reading from the empty store; schedules that let every caller finish (`completes`)",
        "mem timing: a burst of calls between two sleeps must finish within 25 ms (measured; the case is rerun otherwise); model clock: 1 ns per call",
        "Redis half restricted to the operations and shapes the repositories use: kv keys hold non-empty strings; list/hash members are strings; lifetimes 0, 0.5 s, 2 s, 1 h; answers compared through repoView (missing list = empty list, missing hash = empty hash, SetExpiration on a missing key = ok); Exists / GetExpiration / SetExpiration on kv, list, hash and counter keys; degenerate arguments included (empty list, empty field, zero increment, empty key, empty string as value/member/expectation, negative lifetimes); Redis cannot represent an empty list/hash (the key vanishes with its lifetime): every answer is judged by the reference except an answer on which the reference with vanishing empty containers (Spec.vanishRun) differs from the reference (holdsRepo_admits); a key never changes its kind within a Redis history (WRONGTYPE vs invalid type / SetHash reset are outside the shapes)",
    ],
}
