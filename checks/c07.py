SPEC = {
    "id": "C07",
    "lean_props": ["TunnoxModel.Props.C07"],
    "harness": {
        "pkg": "c07",
        "shims": {"session": "internal/protocol/session", "adapter": "internal/protocol/adapter"},
        "runs": [{"args": [], "corpus": ""}],
    },
    "skip_model_prefix": ["par", "race"],
    "rule": ("seq/strict/fine cases: one history of registry/session operations (AcceptConnection, Handshake packets through "
             "HandlePacket with a gated auth-handler double, KickOldControlConnection, cleanupStaleConnections, ageing, "
             "Heartbeat packets, CloseConnection, RemoveControlConnection, Unregister, tunnel registration, peer break; the sweep, "
             "heartbeat, CloseConnection and RemoveControlConnection also under a cloud-control store fault: XF/RF/SF/BF) run on "
             "the real SessionManager with fake transports; the snapshot (lookup by every client id and connection id, "
             "ListAuthenticated, Count, GetConnectionStats, GetActiveChannels, closed flags) is compared with the model and "
             "judged by the theorem's predicate. Exhaustive: all symmetry-reduced sequences over 3 connections x 2 clients "
             "(~45 operation instances incl. the split handshake) to depth 3 (quick) / 4 (thorough), with and without a "
             "connection limit; random histories of length 4..15 over 2-4 connections, 1-3 clients, limits 0-3, incl. "
             "operations on unknown/closed connections. adp cases: the same operations with accept, packets and teardown going "
             "through the real BaseAdapter.handleConnection read loop on a queue-fed transport (a loop whose transport is closed "
             "or broken ends and runs cleanupConnection), exhaustive depth 2/3 and random. Every snapshot also asks the other "
             "spellings (List, ListConnections, GetActiveConnections, GetControlConnectionInterface, "
             "GetClientIDByConnectionID). race cases: a handshake of connection 0 parked inside ClientRegistry.UpdateAuth (gated "
             "logger at its 'connection authenticated' line) against one removal / eviction / close / re-register / other "
             "handshake; the outcome must be the model's outcome of one of the two orders (holdsRace). par cases: a prefix, then 2-3 blocks run on concurrent goroutines, "
             "judged by the predicate only. non-trivial = at least one handshake and two non-accept operations; distinct = "
             "distinct case strings"),
    "trusted_base": [
        "Lean 4.33 kernel; axioms propext, Classical.choice, Quot.sound only (audited per theorem on every run)",
        "extractor: session caps/timeouts; call skeletons of Register, UpdateAuth, Remove, Unregister, KickOldConnection, "
        "CleanupStale, removeConnectionLocked, unindexLocked, DropStaleIndex, GetByClientID, handleHandshake, CloseConnection, "
        "RemoveControlConnection, cleanupStaleConnections, CreateConnection, handleHeartbeat, TunnelRegistry.Remove; the "
        "`if`/`range` headers (guards) of the registry functions as source text (all pinned by decide)",
        "differential harness /verif/harness/c07: fake net.Conn transports (closed/broken flags), auth-handler double that does "
        "exactly ServerAuthHandler's two field writes (SetClientID, SetAuthenticated) and then waits at a gate; shims "
        "adapter.VerifHandleConnection (C01 shim: TcpAdapter.handleConnection on a given connection), VerifControlListLen, "
        "VerifCleanupStale, VerifUnregister, VerifListAuthenticated, VerifControlCount, VerifHasTunnelConn, VerifKickWithHook; "
        "CloudControlAPI double whose DisconnectClientIfMatch/DisconnectClient/EnsureClientOnline fail while a fault op runs",
        "each registry method holds ClientRegistry.mu for its whole body (Lock/Unlock positions are part of the pinned skeletons)",
    ],
    "assumptions": [
        "atomic steps of the model: every operation is one step, except the handshake (split where the auth handler writes "
        "ClientID/Authenticated outside the registry lock). CloseConnection, KickOldConnection, CleanupStale and the tail of "
        "handleHandshake take their locks several times; interleavings inside them are outside the theorems (C07_main is "
        "partial for schedules in exactly this sense) and are explored only by the concurrent blocks; what they find is "
        "recorded as evict-close-window",
        "connection ids: AcceptConnection with an id in use is refused (real call, CreateStream); an id whose connection was "
        "torn down comes back as a new incarnation on a new fake transport (CloseConnection removes the stream since d6b8c5d); a "
        "comeback while a packet of the previous incarnation is still being handled is not driven (model: refused)",
        "one packet at a time per connection (one read loop): no second handshake on a connection while one is in flight; in "
        "concurrent blocks the packets and the teardown of a connection stay in one block",
        "Register is driven through RegisterControlConnection with a new ControlConnection built from SessionManager's entry "
        "(op G): unauthenticated in any state (limit eviction and replacement of the registered entry, also both in one call), "
        "pre-authenticated only in the situation notifyTargetClientToOpenTunnel builds it in (no connection indexed for the "
        "client, the id not registered as a control connection, stream not closed; no reader type in the tree implements "
        "GetClientID, so that caller is unreachable today). Not driven: a pre-authenticated Register OVER a registered id "
        "(removeConnectionLocked(existing) closes the stream the new object shares: it would be indexed with a closed "
        "transport), direct UpdateControlConnectionAuth (no caller besides handleHandshake), "
        "connStateStore side effects (nil in the harness; C08), the contents of the cloud-control state (C08; the harness "
        "configures a cloud-control double that only answers ok / error), SessionManager shutdown (C16)",
        "'its transport is closed' is the server-side Close of the fake transport; a peer-side break is an input (op P)",
        "a panic inside StreamProcessor (onClose clears ps.writer without the write lock while WritePacket runs; belongs to "
        "C16/C05, reported) can occur in concurrent blocks: such a run is repeated and counted in "
        "stream_close_race_panics_retried",
    ],
}
