SPEC = {
    "id": "C07",
    "lean_props": ["TunnoxModel.Props.C07"],
    "harness": {
        "pkg": "c07",
        "shims": {"session": "internal/protocol/session"},
        "runs": [{"args": [], "corpus": ""}],
    },
    "skip_model_prefix": ["par"],
    "rule": "TODO",
    "trusted_base": [],
    "assumptions": [],
}
