SPEC = {
    "id": "C02",
    "lean_props": ["TunnoxModel.Props.C02"],
    "harness": {
        "pkg": "c02",
        "shims": {"session": "internal/protocol/session"},
        "runs": [{"args": [], "corpus": ""}],
    },
    "extra_harness": [{
        "pkg": "c02", "race": True,
        "shims": {"session": "internal/protocol/session"},
        "runs": [{"args": ["-only", "reattach"], "corpus": "reattach"}],
    }],
    "strip_obs": r" \| ps .*$",
    "skip_model_prefix": ["bridge", "reattachfree", "closerace"],  # "bridge" also covers "bridgestall"
    "rule": ("copy cases: the real Bridge.CopyWithControl between scripted endpoints (reads with data/timeouts/errors/empty "
             "results, short and failing writes, sizes around the 32 KiB buffer and the 1 MiB batch threshold, bandwidth "
             "limits below and above buffer/2, cancellation) compared byte-exactly with the model; bridge cases: the real "
             "tunnel.Bridge under the real SessionManager.runBridgeLifecycle with both directions running concurrently "
             "(ping-pong, one end finishing first, both racing to EOF), judged by the theorem's predicate; non-trivial = "
             "more than one read event; distinct = distinct case strings; reattach cases: the source end re-attaches "
             "(SetSourceConnection) during a chosen Read of the old connection with the other direction at rest, compared "
             "with the model incl. which source connection every byte of the target is written to; reattachfree: the same "
             "while the target streams (schedule-independent clauses only; second binary built with `go build -race`, a "
             "race report is a failing observation); bridgestall: the statistics backend does not answer during the final "
             "traffic report — both ends must already be closed; xnode: the target end attached on another node — source app, "
             "real Bridge + CrossNodeListener relay, loopback TCP, real forwardToSourceNode (dedicated-connection manager or "
             "pool) + runCrossNodeDataForwardDedicated, target app — both ends writing at intervals for several multiples "
             "of the attach deadline, neither closing early; compared with the model and judged by holdsXnode"),
    "trusted_base": [
        "Lean 4.33 kernel; axioms propext, Classical.choice, Quot.sound only (audited per theorem on every run)",
        "extractor: CopyBufferSize, BatchUpdateThreshold; call skeletons of CopyWithControl, waitLimiterN, runBridgeLifecycle (compared by decide)",
        "differential harness /verif/harness/c02 with scripted net.Conn doubles; shim VerifStartBridge mirrors the tail of startSourceBridge",
        "Go race detector (race build of the c02 harness): checks that accesses to the installed source forwarder are ordered by sourceConnMu, which the model assumes (one atomic cell); a dynamic check, not a proof",
        "golang.org/x/time/rate: WaitN(k) with k <= burst fails only on context cancellation (documented contract; parameter of the model)",
        "xnode cases: the two relay hops are modelled as two copy loops in a row (relay2); that the relay functions are plain io.Copy pairs with half-close and arm no timer on the relayed connections is pinned by three skeletons; io.Copy itself (stdlib) is trusted to be the copy loop",
    ],
    "assumptions": [
        "closure 'within bounded time' is wall-clock: the model proves the close is issued; the harness observes it under a 15 s watchdog (partial)",
        "quota/traffic-meter path (QuotaEnforcer) not modelled (nil in the harness); the framed cross-node stream (FrameStream, pooled connections) is C10 — the raw two-hop relay of a cross-node tunnel is the xnode kind here",
        "a source connection replaced twice during one copy (the middle one is never read) is outside sourceLoop; re-attachment after the bridge has closed is C16's late-attach clause",
        "the statistics backend is external: closeRun stops at a stalled ManagerBase.Close; 'the server forgets the tunnel' then waits for the backend (not claimed under a stalled backend)",
    ],
}
