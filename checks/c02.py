SPEC = {
    "id": "C02",
    "lean_props": ["TunnoxModel.Props.C02"],
    "harness": {
        "pkg": "c02",
        "shims": {"session": "internal/protocol/session"},
        "runs": [{"args": [], "corpus": ""}],
    },
    "extra_harness": [{
        "pkg": "c02", "race": True,
        "shims": {"session": "internal/protocol/session"},
        "runs": [{"args": ["-only", "reattach"], "corpus": "reattach"}],
    }],
    "strip_obs": r" \| ps .*$",
    "skip_model_prefix": ["bridge", "reattachfree"],  # "bridge" also covers "bridgestall"
    "rule": ("copy cases: the real Bridge.CopyWithControl between scripted endpoints (reads with data/timeouts/errors/empty "
             "results, short and failing writes, sizes around the 32 KiB buffer and the 1 MiB batch threshold, bandwidth "
             "limits below and above buffer/2, cancellation) compared byte-exactly with the model; bridge cases: the real "
             "tunnel.Bridge under the real SessionManager.runBridgeLifecycle with both directions running concurrently "
             "(ping-pong, one end finishing first, both racing to EOF), judged by the theorem's predicate; non-trivial = "
             "more than one read event; distinct = distinct case strings"),
    "trusted_base": [
        "Lean 4.33 kernel; axioms propext, Classical.choice, Quot.sound only (audited per theorem on every run)",
        "extractor: CopyBufferSize, BatchUpdateThreshold; call skeletons of CopyWithControl, waitLimiterN, runBridgeLifecycle (compared by decide)",
        "differential harness /verif/harness/c02 with scripted net.Conn doubles; shim VerifStartBridge mirrors the tail of startSourceBridge",
        "golang.org/x/time/rate: WaitN(k) with k <= burst fails only on context cancellation (documented contract; parameter of the model)",
    ],
    "assumptions": [
        "closure 'within bounded time' is wall-clock: the model proves the close is issued; the harness observes it under a 15 s watchdog (partial)",
        "quota/traffic-meter path (QuotaEnforcer) not modelled (nil in the harness); cross-node forwarding is C10",
        "the periodic context check (every 10000 iterations) is not modelled separately from read errors after close",
    ],
}
