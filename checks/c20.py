SPEC = {
    "id": "C20",
    "lean_props": ["TunnoxModel.Props.C20"],
    "harness": {
        "pkg": "c20",
        "shims": {"socks5": "internal/client/socks5", "adapter": "internal/protocol/adapter"},
        "runs": [{"args": [], "corpus": ""}],
    },
    "rule": ("hs/ad cases: a byte stream (greeting [+ RFC 1929 sub-negotiation] + request + trailing bytes; valid, one or two "
             "fields invalid, truncated at every field boundary / every offset, every NMETHODS 0..255, every domain length "
             "0..255, arbitrary octets) delivered through a chunk-controlled fake connection (whole, 1-byte reads, cuts at "
             "field boundaries, every single cut, random partitions; EOF or error at the end) to the real Listener.Handshake and "
             "to the real SocksAdapter.handleHandshake+handleRequest; observation = result or error stage, every byte written "
             "back, bytes left unread. udp cases: a datagram (every ATYP octet x FRAG x RSV, every domain length x payload "
             "sizes x truncation points, IPv4/IPv6 incl. IPv4-mapped, noise) through the real parseUDPHeader, then "
             "buildUDPHeader of the result and parseUDPHeader again. ubp cases: host text (IPv4/IPv6 canonical and "
             "non-canonical spellings, names of every length) x port x payload through buildUDPHeader then parseUDPHeader. "
             "adc cases: every fifth hs/ad stream also through the real SocksAdapter.handleSocksConnection (no session attached). "
             "conn cases: Listener.handleConnection on the fake connection with tunnel-/relay-creator doubles (present or nil, "
             "succeed or fail, relay bind address IPv4 / IPv4-mapped / IPv6, ports 0..65535) over valid, mutated, truncated and "
             "pipelined (up to 2000 trailing bytes) negotiations, all 16 creator combinations x CONNECT/UDP ASSOCIATE x address "
             "type, and the 10.0.0.1:853 interception with its neighbours (as IPv4, as a name, IPv4-mapped); observation = "
             "creator calls with every argument and the bytes still unread on the connection, bytes written, closed or not. "
             "live cases: the same through Manager.AddMapping -> Listener.Start -> acceptLoop over loopback TCP. "
             "relay cases: a sequence of datagrams (valid IPv4/IPv6/domain incl. shared destinations and exact duplicates, "
             "fragments, truncated, unknown ATYP; payload 0..1400) sent to the UDP socket of a real UDPRelay (readLoop + one "
             "handlePacket goroutine per datagram) with tunnel doubles recording every SendPacket; three forced schedules: "
             "paced (each delivered before the next is sent), burst (GOMAXPROCS(1), whole burst written before the harness "
             "yields, so the reader drains the socket before any started goroutine runs), gated (doubles block in SendPacket "
             "until every destination has arrived, bytes taken when the gate opens); a DNS-handler double installed or not (port 53, incl. the virtual DNS "
             "address); the doubles answer every packet (tunnel A5++payload via ReceivePacket/receiveLoop, DNS D5++query) and "
             "the application socket collects what comes back; names spelling IP literals; a 65506-byte datagram; observation = "
             "sorted lists of (tunnel destination, bytes), (DNS server, query), datagrams received back. distinct = distinct (mode, stream/datagram(s)/host, chunk sizes)"),
    "trusted_base": [
        "Lean 4.33 kernel; axioms propext, Classical.choice, Quot.sound only (audited per theorem on every run)",
        "extractor /verif/extract (go/ast): SOCKS5 constants of both packages, call skeletons (order of ReadFull / Write / "
        "SendError / sendReply) and the integer literals (buffer sizes, offsets, length bounds) of the six parsing functions "
        "regenerated into Gen/Socks.lean and pinned by theorems",
        "differential harness /verif/harness/c20 + fake net.Conn over common.ChunkReader; compiled Lean driver as model and as holds-oracle",
        "net.IP.String (16-byte, not IPv4-mapped) and net.ParseIP are parameters of the model (IPText), measured per case by the harness; "
        "the round-trip theorems assume ParseIP(String(ip)) = ip (IPText.RT)",
        "the reference reading of RFC 1928/1929 is Spec/C20.lean (decodeNeg, decodeUDP), proved inverse to the grammar encoders",
        "relay: transition system over the shared read buffer (Relay.step: read | run i), theorem for every schedule; tied by the "
        "readLoop/handlePacket call skeletons (copy made by the reader before `go`, parse in the goroutine) and by the burst/gated runs "
        "of the real relay over loopback UDP; the Go scheduler itself is not modelled (goroutine start-to-SendPacket is one step)",
    ],
    "assumptions": [
        "reference leniencies: RSV octets ignored on receipt; zero-length domain names are grammatical; with several invalid request fields the first in wire order (VER, CMD, ATYP) decides the reply",
        "a rejection without mandated reply (bad greeting version, NMETHODS=0, bad request version, bad RFC 1929 version, truncation) may close silently; NMETHODS=0 may also be answered 05 FF and a bad request version by any failure reply",
        "writes to the application connection succeed (write errors are not injected)",
        "BuildWF for buildUDPHeader: host text of at most 255 octets and port < 65536 (callers pass the host/port a parse produced)",
        "same destination = same host text, or IP literals denoting the same address (a name spelled as a non-canonical IP literal is re-encoded as that address)",
        "relay: datagrams fit the 65535-byte read buffer (UDP cannot carry more); loopback UDP does not drop or reorder the bursts "
        "(<= 17 datagrams, <= 25 KB); tunnel SendPacket / QueryDNS / CreateUDPTunnel succeed (their error paths: session removal, "
        "idle cleanup, the 128-session limit are session lifecycle, not parsing, and are not driven)",
        "conn: the listener's own policy (CONNECT to 10.0.0.1:853 refused with a failure reply) is part of the reference as a literal; "
        "for a relay bound to a non-IPv4-mapped IPv6 address the success reply may carry 0.0.0.0 (what the code does) — only the port is required",
        "adapter beyond parsing (Listen/Accept, dialThroughTunnel, relay with a session attached) is out of scope: it dials real targets",
        "the SocksAdapter is driven through handleHandshake+handleRequest in the order of handleSocksConnection (pinned by skeleton); dialing and relaying are out of scope",
    ],
}
