SPEC = {
    "id": "C16",
    "lean_props": ["TunnoxModel.Props.C16"],
    "harness": {
        "pkg": "c16",
        "shims": {"c16tunnel": "internal/protocol/session/tunnel"},
        "runs": [{"args": [], "corpus": ""}],
    },
    # which closer wins (its reason, and hence whether the peer is notified) depends on the schedule
    "strip_obs": r" reason -?\d+ notify \d+",
    "rule": "TODO",
    "trusted_base": [],
    "assumptions": [],
}
