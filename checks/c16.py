SPEC = {
    "id": "C16",
    "lean_props": ["TunnoxModel.Props.C16"],
    "harness": {
        "pkg": "c16",
        "shims": {"c16tunnel": "internal/protocol/session/tunnel", "c16mapping": "internal/client/mapping"},
        "runs": [{"args": [], "corpus": "", "timeout": 7200}],
    },
    # which closer wins (its reason, and with it whether the peer is notified) depends on the schedule;
    # holds checks that the pair is consistent with one of the callers
    "strip_obs": r" reason -?\d+ notify \d+| upd \d+| cstats \d+ \d+| called \d+",
    "rule": ("five executors driving the real code: disp (Dispose.Close, N closers behind a spin barrier, H counting handlers, "
             "every error mask), tun (client Tunnel with a real manager, real Start goroutines and pipes; closers = Close(reason), "
             "peer notification, CloseAll, fatal error, both peers hanging up; every pair of closers and random crowds of 3-8, "
             "each repeated 60-1200 times per case), rep (reportTrafficStats under a FORCED interleaving: gated CloudControl "
             "double, one schedule entry = one model step, lock waits detected from the goroutine dump; every schedule of "
             "length <= 5 (thorough 8) over two reporters plus random multi-round cases with 1-4 reporters), brg (Bridge.Close "
             "x N with counting connection doubles; the CloudControl double holds the first reporter in its Get->Update "
             "transaction until a second one arrives), sp (StreamProcessor.Close x N while a ReadPacket/WritePacket is parked "
             "inside transport call <cut>, every cut position). Every case ends with a goroutine-dump diff filtered to repo "
             "frames (leak) and with operations after close. distinct = distinct case without repetition count / model seed; "
             "non-trivial = every case (each has >= 1 closer)."),
    "trusted_base": [
        "Lean 4.33 kernel; axioms propext, Classical.choice, Quot.sound only (audited per theorem on every run)",
        "extractor /verif/extract: tunnel state / close reason constants, shouldNotifyPeer (translated switch), call skeletons of "
        "Dispose.Close, runCleanHandlers, Tunnel.Close, Bridge.Close, cleanup, reportTrafficStats, StreamProcessor.onClose/acquire*Lock",
        "harness /verif/harness/c16: spin barrier, gate scheduler, goroutine-dump parsing (leak oracle and 'blocked on a repo mutex')",
        "atomic-step granularity of the models: one mutex critical section / one atomic op / one storage or transport call; the "
        "close sequence of Tunnel.Close is one step (its effects are not read by the load/CAS steps of other callers)",
        "NOT proved, only observed by the harness: no goroutine or timer remains (leak field), absence of panics outside the modelled paths",
    ],
    "assumptions": [
        "WF: at least one closer (n >= 1, reasons != []); initial tunnel state Connecting or Connected (init <= 1)",
        "clean handlers are registered before the first Close; a handler does not call Close on its own Dispose (self-deadlock)",
        "byte counters do not move during one round of concurrent reports (they move between rounds); the mapping is written by this bridge only",
        "free-running cases (disp/tun/brg/sp closers) explore schedules by contention, not exhaustively; the model side of those "
        "cases runs a pseudo-random schedule, the theorems cover all of them",
        "flow: the number of UpdatePortMappingStats calls and, for an explicit Close during the copy, the totals (last partial "
        "batch is flushed after cleanup's report; it reaches the totals only through the periodic goroutine's final report) are "
        "excluded from the model comparison; holds still requires totals <= bytes delivered there and == everywhere else",
        "Start || Close is modelled and gated for the client Tunnel (the only managed component whose Start binds the dispose "
        "context late); Bridge.Start / StreamProcessor first I/O / storage and SessionManager background goroutines are exercised by "
        "brg (start 1), flow, sp and mgr with Close racing the started goroutines, judged by the leak oracle, without a Start step model",
        "observed on the unchanged tree, not a property violation: a Close that completes before Start's SetCtx leaves Start failing "
        "cleanly (error, nothing spawned) but with a fresh live context bound and IsClosed() == false",
        "every wait-dependent verdict (timeout, stuck, leak/live > 0) is re-run once, alone, with doubled patience and reported only "
        "if it shows again; the first confirmed one ends the harness run (stats: timeouts_retried, timeouts_confirmed)",
        "Bridge.Start racing Bridge.Close (unlocked reads of the forwarders) is outside the model: see KNOWN_FINDINGS comment",
    ],
}
