SPEC = {
    "id": "C06",
    "lean_props": ["TunnoxModel.Props.C06"],
    "harness": {
        "pkg": "c06",
        "shims": {"conncode": "internal/cloud/services/conncode"},
        "runs": [{"args": [], "corpus": ""}],
    },
    "skip_model_prefix": ["fine", "nfine", "uniq"],
    "rule": ("the real conncode.Service (ActivateConnectionCode / RevokeConnectionCode / CreateConnectionCode) over the real "
             "repositories, PortMappingService, ID manager and memory storage; every call runs as its own node (own service stack) on a "
             "gated wrapper over one shared storage. sched cases: all interleavings of the storage phases (claim/get/quota/create/"
             "update/rollback/release) of 2 activations (word length 11) and of 2 activations + 1 revocation (length 8), the same for "
             "requests that spell the code differently (upper case, trailing/leading blank, another string; 7 pairs, 4 triples), same client "
             "twice, two revocations, every single write-failure position of an activation and of a revocation (alone, followed by and "
             "interleaved with a second activation; claim/look-up/release failure with two other activations in flight), all 120 orders of create/expire/activate/activate/revoke for both key modes "
             "(real-time expiry), random structured cases (malformed requests, quotas, faults, late/missing/double creation, expiry "
             "at random points); nodes cases: the same interleavings with every call on its own cluster node (real HybridStorage with the "
             "default routing tables: node-local cache + the cache shared by all nodes); each compared token by token with the model and judged by the theorem's predicate. fine cases: every "
             "single storage operation is a scheduling point, order drawn from the seed, judged by the predicate only. non-trivial = more "
             "than one call or more than two events. snode cases: all calls through ONE service stack (same node; callers told "
             "apart by goroutine) with status polls (GetConnectionCode) whose storage read is held between 'performed' and "
             "'returned' across a complete activation/revocation and into the next one's critical section (140 directed, "
             "exhaustive 2act / 2act+revoke, random); stuck-call cases: Z events (3.5 s of wall-clock time with every call parked) "
             "between a call's claim and its writes while another call runs through; a call that waits inside the code under test is detected and resumed. uniq cases: the real CreateConnectionCode on a code space of 1-3 codes (shim "
             "VerifSetGenerator), creations interleaved with activations, judged by holdsUniq; distinct = distinct case strings"),
    "trusted_base": [
        "Lean 4.33 kernel; axioms propext, Classical.choice, Quot.sound only (audited per theorem on every run)",
        "extractor: IsExpired/IsValidForActivation/CanBeActivatedBy translated from the Go source (the model calls them); key prefixes, "
        "codeClaimTTL; call skeletons of ActivateConnectionCode, RevokeConnectionCode, claimCode, TryClaim, ReleaseClaim, GetByCode, "
        "Update, both CreatePortMapping, Activate, Revoke, GenerateUnique (compared by decide)",
        "harness /verif/harness/c06: gated storage wrapper, phase labels from wrappers around PortMappingService / IPortMappingRepository, "
        "fault-name table in Driver/C06.lean (an unknown storage operation is a loud parse error)",
        "storage SetNX/Get/Set/Delete are atomic single steps (memory storage: one mutex section each; Redis: one command); "
        "atomic-step granularity = one storage phase, validated against single-operation interleavings by the fine cases",
    ],
    "assumptions": [
        "the claim key is a lease (codeClaimTTL, wall-clock TTL) that is neither renewed nor checked again before the writes: the "
        "theorems assume that the stalls of a history do not add up to its lifetime (hypothesis leaseOk; necessary: C06_lease_witness). "
        "Pinned: codeClaimTTL outlasts two 3.5 s stalls (claim_lease_pin), and the harness holds a call for 3.5 s / 7 s between its "
        "claim and its mapping write / write-back while another node activates or revokes (Z events); a call stuck for longer than "
        "codeClaimTTL (30 s) is outside the model",
        "the code string of a request is compared as a raw string (no canonicalisation anywhere: skel_keys); a request that spells "
        "the code differently is a request for another key (model: Thread.spell, own claim key, no record)",
        "one generation of the code string: a second CreateConnectionCode that draws the same string after the first record vanished "
        "is a different code (the model ignores a second create event)",
        "at most one storage failure per call (any number of calls may each have one); failures absorbed by the code (ID-generator "
        "retry, client-index appends, anything inside a roll-back) are modelled as no failure",
        "'only while valid' is judged at two instants of a successful activation, its read of the record and its re-decision "
        "before anything is created (C06_valid: positions in the event list; C06_decision_instant: the record as stored at the "
        "re-decision is unrevoked, unused, unexpired); the as-found sequential-safety statement C06_seq_partial is not mechanised",
        "cases in which a code record is re-written after the period ended with a TTL computed before (stale positive TTL, visible for "
        "a few ms) are executed but not compared (counted as skipped:stale-ttl)",
        "PostgreSQL/remote storage backends and the hybrid storage routing are not exercised (C14); quota counting races are C17",
    ],
}
