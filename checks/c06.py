SPEC = {
    "id": "C06",
    "lean_props": ["TunnoxModel.Props.C06"],
    "harness": {
        "pkg": "c06",
        "shims": {},
        "runs": [{"args": [], "corpus": ""}],
    },
    "skip_model_prefix": ["fine"],
    "rule": "TODO",
    "trusted_base": [],
    "assumptions": [],
}
