SPEC = {
    "id": "C19",
    "lean_props": ["TunnoxModel.Props.C19"],
    "harness": {
        "pkg": "c19",
        "shims": {"domainproxy": "internal/httpservice/modules/domainproxy", "httpservice": "internal/httpservice"},
        "runs": [{"args": [], "corpus": ""}],
    },
    "skip_model_prefix": ["c19r", "c19u"],
    "level_text": ("Lean 4 theorem C19_main: for every set of client threads, every history of create / delete / update / lookup operations, "
                   "every registry / cloud table and every schedule of storage steps, the observation of the executable interleaving model of "
                   "CreateMapping / DeleteMapping / UpdateMapping / lookupMapping (one model step per storage call) satisfies `holds` — the "
                   "same monitor predicate the runner evaluates on the observations of the real code: single owner, owner-only delete, "
                   "claimable again after the owner's delete, every routed lookup justified at its point of the history (owner's client and "
                   "target for exactly the name the Host denotes, never after a completed delete, never known-inactive / expired, registry / "
                   "cloud only when no repository mapping certainly owns the name), final store. Only hypothesis: the repaired DeleteMapping "
                   "(the as-found variant has a witness theorem). Plus state-level theorems for every reachable state (C19_routing_sound, "
                   "C19_deleted_stays_unindexed) and host normalisation for every Host string (C19_host_key). The model is tied to the source "
                   "by regenerated constants, IsExpired/IsActive/Validate and call skeletons, and by the gated differential run."),
    "rule": ("client threads of create / delete / update / lookup operations run on the real HTTPDomainMappingRepository and the real "
             "DomainProxyModule.lookupMapping over a gated wrapper of the real memory.Storage (and a gated CloudControl double): every "
             "storage call is one scheduler step, so the real execution is the interleaving named by the schedule. Streams: exhaustive "
             "interleavings of two-thread templates (create||create, delete||create, delete||lookup, foreign delete, update||lookup, "
             "update||delete, ...), segment-cut and uniform samples of 3-4 thread templates (double delete around a re-claim, zombie "
             "record re-delete), Host spellings (ports, empty port, IPv6 literals, case, trailing dot, junk) against every status/expiry "
             "variant and registry/cloud fallback entry, boundary/malformed creates, single storage-failure injection at every call of CreateMapping "
             "(fault gate in the store wrapper), random programs with random schedules; DomainRegistry: sequential Register/Unregister/LookupByHost "
             "histories compared with the model, and simultaneous Register calls of 2-8 claimants for one unclaimed name released by a barrier "
             "(half of the rounds: the registry's own write lock held through a verif-only shim, so all claimants sit at their first lock "
             "acquisition and start together), each round judged by holdsReg; a retried UnregisterByMappingID of the old mapping overlapping a "
             "re-claim of the name (c19u: two unregisters + one Register behind the same barrier, then lookup / third claimant / lookup); registry Rebuild / UnregisterByMappingID / IsSubdomainAvailable in the "
             "sequential histories; entry-point histories (c19h): the real HTTPDomainCreateHandler / HTTPDomainDeleteHandler + repository adapter "
             "(identity from ctx.ClientID), CleanupExpiredMappings, ListAllMappings, GetMappingsByClientID, IsSubdomainAvailable and "
             "DomainProxyModule.ServeHTTP with a recording session manager, two repository instances over one store, compared with the "
             "sequential expansion model and judged by holds + entryOK. "
             "non-trivial = more than one thread or a non-empty schedule; distinct = distinct case strings"),
    "trusted_base": [
        "Lean 4.33 kernel; axioms propext, Classical.choice, Quot.sound only (audited per theorem on every run)",
        "extractor /verif/extract: key prefixes, status strings, error codes, IsExpired/IsActive/Validate and the call skeletons of "
        "CreateMapping/DeleteMapping/UpdateMapping/LookupByDomain/lookupMapping regenerated into Gen/C19.lean",
        "differential harness /verif/harness/c19 (gated store = one atomic step per storage call); compiled Lean driver as model and as holds-oracle",
        "memory.Storage behaves as the sequential map the model uses (Get/Set/Delete/SetNX/Incr/list ops atomic; counter monotone: C13/C15)",
    ],
    "assumptions": [
        "names are compared as byte strings, as the code does (a case variant is a different name); DNS case-insensitivity is out of scope",
        "the delete claim's lease (30 s) outlives one DeleteMapping call; storage failures are injected for CreateMapping only (single failure, sequential: C19_failed_create_leaves_nothing), not inside interleavings and not for DeleteMapping",
        "expiry values used by the harness are far from the wall clock, so the model's explicit clock and time.Now() agree",
        "registry (deprecated in-memory source) and cloud control are static tables per case; the registry step is atomic with the preceding storage step",
        "DomainRegistry has no injectable call between its lock sections: its interleavings are quantified by the Lean theorem C19_registry_single_owner (one model step per lock section, tied by the lock-fact skeletons skel_Registry); on the real code simultaneous claimants are a barrier-released search (scheduler-dependent), not an enumeration",
    ],
}
