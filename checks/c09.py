SPEC = {
    "id": "C09",
    "lean_props": ["TunnoxModel.Props.C09"],
    "harness": {
        "pkg": "c09",
        "shims": {"session": "internal/protocol/session"},
        "runs": [{"args": [], "corpus": "", "timeout": 900}],
    },
    "skip_model_prefix": ["X "],
    "rule": ("one case = a history of register / lookup / remove / bridge-open / bridge-end / clock / node-address events over "
             "1-3 nodes on one backend, run on the real tunnel.RoutingTable (and SessionManager.startSourceBridge / "
             "runBridgeLifecycle) over memory, Redis (miniredis), the tiered store with and without shared Redis, and two "
             "value-shape doubles; every result is compared with the model and judged by the theorem's predicate. Streams: "
             "field fidelity (unicode, control characters, empty, 64 KiB strings, integers at the 2^53 and int64 boundaries), "
             "id families (three ids alive together on three nodes that share a prefix and differ at one byte: lengths 1..4096, first byte / bytes 100-130 / last byte, separators, the key prefixes themselves, case / trailing NUL / unicode normal forms; the same as node ids), forwarding (a target arrives on a node: Lookup, then the REAL SessionManager.handleCrossNodeTargetConnection -> lookupTunnelRouting -> processCrossNodeForward -> handleLocalBridgeWait | forwardToSourceNode -> TunnelConnectionManager.CreateDedicatedConnection wired to RoutingTable.GetNodeAddress; four live TCP endpoints report which of them received the TargetReady frame; source nodes re-register at other endpoints between tunnels while the old endpoint keeps accepting, several tunnels per forwarding node, missing / empty / expired addresses), the polling lookup (real lookupTunnelRouting behind a gated store: registrations, removals, lapses, restarts between two of its polls), removals under a cancelled / deadline-exceeded caller context (two of five removals in every stream), crash-restarts of nodes over the same storage, overlapping lookups (the storage reply of one lookup is held back — go-redis hook inside redis.Storage.Get / answer-holding wrapper — while the id is removed, lapses, is re-registered; later lookups on the same and other nodes are judged at their own start), lookup results scribbled over by the caller, every event sequence up to length 3 (thorough: 4) over an 8 (10) letter alphabet per backend, random "
             "histories with exact Redis-clock boundaries, real-time histories with 300/400 ms ttls probed at <= 0.5 ttl or >= 1.6 ttl; non-trivial = at "
             "least two events; distinct = distinct case strings"),
    "trusted_base": [
        "Lean 4.33 kernel; axioms propext, Classical.choice, Quot.sound only (audited per theorem on every run)",
        "extractor: WaitingState field/tag table, the case list of LookupWaitingTunnel's type switch, makeKey and node-address key "
        "expressions, default ttl, NodeAddressTTL, hybrid DefaultConfig prefix tables and getCategory/isShared (translated), call skeletons",
        "encoding/json text layer (escaping, number syntax, RFC 3339 times) assumed to round-trip on valid UTF-8; the model works on JSON values",
        "Redis is not modelled beyond SET-with-TTL/GET/DEL on a server clock (miniredis in the harness)",
        "differential harness /verif/harness/c09 (real sleeps for the nodes' clock, miniredis FastForward for the Redis clock)",
    ],
    "assumptions": [
        "dialling a registered, live cross-node endpoint succeeds; every forwarded tunnel ends (endpoint closes, the forwarding goroutine drops the per-tunnel connection) before the next event",
        "a restart is a crash (no cleanup runs); on a tiered store without shared cache a restart loses the records themselves (excluded)",
        "a tunnel whose record names the forwarding node itself but has no bridge there is reported as localwait without running the 5 s wait of handleLocalBridgeWait",
        "strings are valid UTF-8 (json.Marshal replaces other bytes by U+FFFD; observed as excluded-point cases, not judged)",
        "integers fit int64; when a backend returns map[string]interface{} they must be exactly representable as float64 (|n| <= 2^53)",
        "a tiered store without shared cache is a single-node deployment (records live in the node's own memory)",
        "a tunnel id waits on one node at a time (id uniqueness is C15); the spec follows the last registration of an id",
        "a run is judged only if, for every (registration, later lookup of the same id) pair, the measured real interval lies on the model's side of the ttl by max(25 ms, 20% ttl) on both sides; otherwise it is retried (5 attempts) and then dropped, counted as dropped_timing_unstable, never reported",
    ],
}
