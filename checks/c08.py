SPEC = {
    "id": "C08",
    "lean_props": ["TunnoxModel.Props.C08"],
    "harness": {
        "pkg": "c08",
        "shims": {},
        "runs": [{"args": [], "corpus": ""}],
    },
    "rule": "TODO",
    "trusted_base": [],
    "assumptions": [],
}
