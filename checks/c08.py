SPEC = {
    "id": "C08",
    "lean_props": ["TunnoxModel.Props.C08"],
    "harness": {
        "pkg": "c08",
        "shims": {"session": "internal/protocol/session", "adapter": "internal/protocol/adapter"},
        "runs": [{"args": [], "corpus": ""}],
    },
    "skip_model_prefix": ["sched"],
    "rule": ("case = one history of session events on 1-4 nodes sharing one store; every node is a real SessionManager with "
             "its own connstate.Store, driven through CreateConnection / HandlePacket(Handshake|Heartbeat) and, for the end of a "
             "connection, through EVERY production path: CloseConnection called directly (c:), the adapter's read-loop end "
             "BaseAdapter.cleanupConnection (e:, shim), the Disconnect command via HandlePacket (d:), the real heartbeat-timeout "
             "sweep cleanupStaleConnections after the connection was made to look silent (s:, shim), duplicate-login eviction "
             "KickOldControlConnection (k:), session manager shutdown Close/onClose (x:<node>), and the same-node re-handshake "
             "(fake transport; the auth handler double accepts token ok and, like ServerAuthHandler.updateClientRuntimeState, calls "
             "ConnectClient for control handshakes of a known client). Every node also carries a REAL client.Service over a real "
             "ClientStateRepository on its handle of the shared store, given to the session manager as CloudControlAPI (heartbeat -> "
             "EnsureClientOnline, RemoveControlConnection / sweep -> DisconnectClientIfMatch); the third component of every "
             "observation is what each node reads from the runtime state (GetState: node + connection); after EVERY event EVERY node is asked FindClientNode for every watched client "
             "and SendCommandToClient's routing decision is recorded (CrossNodePool over a recording storage: no network). "
             "Backends: memory, redis over miniredis (clock = FastForward), hybrid(local memory per node + shared redis), hybrid "
             "local-only, doubles answering map[string]interface{} / []byte. Generators: exhaustive words of length <= 3 (quick) / "
             "4 (thorough) over {handshake, heartbeat, close} x {conn on node 0, conn on node 1} + {short, long tick} and over "
             "two connections on one node + one on the other (same-node kick + cross-node reconnect + late cleanup); random "
             "structured histories (2-4 nodes, 1-3 clients + client id 0, reconnects, oldest-first late closes, refused / tunnel-type "
             "/ repeated handshakes, stray events on closed or unknown ids, id reuse, lifetimes 1 s / 60 s / default 5 min, ticks "
             "0.3 / 0.45 / 1.3 lifetimes so that the boundary instant is never observed); real-clock lifetimes (300 ms, sleeps 110 / "
             "400 ms, rerun when a sleep overshoots by > 25 ms) on the backends that cannot be fast-forwarded; boundary list; "
             "split lookups: q:<node>.<client> starts a real FindClientNode on a store handle whose every call waits for a permit "
             "and lets only its first round trip (index read) run, r:… lets the rest run and takes the answer - any events in "
             "between (exhaustive words over {q,r on both nodes, same-node / cross-node reconnect, close, sweep, heartbeat, expiry}, "
             "<= 4 / 5 steps, only words in which a lookup spans an event; random histories; boundary list); "
             "wall-clock histories (w:<ms> = real sleep on every backend + FastForward on the redis-backed ones, lifetime 300 ms): a "
             "session kept alive by heartbeats beyond one lifetime authenticates again on the same connection (before / after the "
             "first lifetime, with refused and tunnel-type handshakes in between, after the client moved and came back) - the records' "
             "ExpiresAt is stamped from the wall clock, FastForward alone cannot age it; "
             "split consumers: y:<node>.<client> starts a real SendHTTPProxyRequest (m: a real SendCommandToClient) on the node: the "
             "node-local registry is read at once and, on a miss, the first call on the node's connstate handle parks (one-shot "
             "parking handle per node); z:/n: lets it go on and return - any events in between, the client's handshake on that node in "
             "particular (exhaustive words over {y,z,m,n on both nodes, first handshake, same-node / cross-node reconnect, close, "
             "heartbeat, expiry}, <= 4 / 5 steps, only words in which a request spans an event; random histories; boundary list); "
             "ending-path words (client registered on node 0; alphabet same-node / cross-node reconnect, c e d s k x, old heartbeat; "
             "<= 3 / 4 steps, redis and memory); keep-alive words (heartbeats of both connections, reconnect, late close, ticks of 0.45 / 0.7 lifetimes, <= 3 / 5 steps). "
             "sched (holds-only exploration below the event granularity): the last two events (close||handshake, heartbeat||handshake, "
             "handshake||handshake on two nodes) run concurrently, every Get/Set/Delete on the shared store is one step of a gated "
             "store handle, all 2^6 (quick) / 2^8 (thorough) step orders; a schedule whose executed trace has a write of the other "
             "node between a node's read of the client index and its delete/rewrite is tagged K:index-check-then-act. "
             "non-trivial = at least two events; distinct = distinct case line"),
    "trusted_base": [
        "Lean 4.33 kernel; axioms propext, Classical.choice, Quot.sound only (audited per theorem on every run)",
        "extractor /verif/extract: normalized text (Gen.Flow) of connstate NewStore / RegisterConnection / UnregisterConnection / "
        "GetConnectionState / FindClientNode / RefreshConnection / clientIndexPointsTo / make*Key and of CloseConnection; call "
        "skeletons of handleHandshake, handleHeartbeat, CreateConnection, RemoveControlConnection, removeConnectionLocked, "
        "UpdateAuth, cleanupStaleConnections, CleanupStale, handleDisconnectCommand, KickOld(Control)Connection, onClose, "
        "ClientRegistry.Close, BaseAdapter.handleConnection/cleanupConnection, WebSocketModule.handleConnection, SendCommandToClient, sendCommandCrossNode, SendHTTPProxyRequest, StreamManager.CreateStream, hybrid "
        "Get/setShared/getCacheForKey/getCategory; hybrid DefaultConfig prefix tables; client.Service ConnectClient / EnsureClientOnline / "
        "DisconnectClientIfMatch, ClientStateRepository GetState/SetState, ServerAuthHandler.updateClientRuntimeState, TTLClientState, "
        "KeyPrefixRuntimeClientState (Gen/ConnState.lean)",
        "the harness' store handles (schedule gate, parking handle) offer storage.CASStore exactly when the wrapped store does "
        "(memory, redis, hybrid), so capability type-assertions in the code under test take the production path",
        "differential harness /verif/harness/c08 (fake transport, auth handler that accepts token \"ok\", recording storage under "
        "the CrossNodePool, value-shape doubles); compiled Lean driver as model and as holds-oracle",
        "the shared store behaves as the sequential map with expiry of Spec/TTLStore (C13 for memory; observed, not proved, for "
        "redis/miniredis and hybrid); Redis itself is not modelled",
    ],
    "assumptions": [
        "scope (built into the event alphabet): a connection id names one node and one client (an id may be accepted again after its CloseConnection), a connection lives on one node and is "
        "used by one client id (re-authentication of a connection under another id is C07); the auth outcome is an input",
        "granularity: one event = one handler call, events of different nodes do not overlap (the property quantifies over "
        "event histories). Below that granularity the repaired UnregisterConnection / RefreshConnection are get-then-delete / "
        "get-then-set (the same pattern as DisconnectClientIfMatch): known finding index-check-then-act, forced by the sched "
        "cases, witness theorems index_check_then_act_witness / refresh_check_then_act_witness",
        "clocks: one cluster clock (node clock skew << lifetime) for storage deadlines and the records' ExpiresAt; the ExpiresAt "
        "re-check of GetConnectionState is modelled (a record past it is absent for every reader; the delete of that record is "
        "not modelled); t: ticks on the redis-backed stores are FastForward only and do not age ExpiresAt (w: ticks do); observations exactly at a deadline are not generated (memory: visible at the "
        "deadline, redis: gone)",
        "keep-alive means handshake/heartbeats of the registered connection at most one lifetime apart; a heartbeat later than "
        "that ends the obligation (RefreshConnection does not re-register a lapsed record)",
        "a connection counts as open until CloseConnection has run for it (the reference's `opened`): duplicate-login eviction and "
        "shutdown only empty the registry and close streams - the records stay until the read loop's CloseConnection, which the "
        "skeletons show every path reaches (skel_closing_paths); they end the keep-alive obligation at once. The routing decision "
        "of a node that was shut down is not observed (its CrossNodePool is closed); a crashed node's records expire by TTL only",
        "the Disconnect command and the sweep act only on a connection the registry holds; whether the call closed the connection "
        "is part of the observation (connection table before/after) and drives the reference",
        "lookups and their consumers are read-only in the model (lookup_is_read_only, consumer_is_read_only; source tie skel_lookup_reads + flow_FindClientNode); the one write "
        "the code can make inside a lookup - GetConnectionState deleting the record it found past its ExpiresAt - concerns the key of "
        "that connection id only and is subsumed by the store's own deadline (not modelled)",
        "cloud runtime state (tunnox:runtime:client:state:<client>, 90 s): a separate component of the model (disjoint key family); "
        "the real auth handler also calls ConnectClient for tunnel-type Handshake packets (it does not look at ConnectionType) - "
        "the double does not, production tunnel connections authenticate with TunnelOpen; clients whose connection the server "
        "ended without the registry (shutdown, KickOldControlConnection) are exempt from clause B' until their next handshake "
        "(known finding runtime-state-survives-server-side-end); GetClientNodeID/IsClientOnNode additionally require LastSeen "
        "< 90 s on the wall clock (not observed: FastForward does not age it)",
        "limits not reached (MaxConnections 10000, MaxControlConnections 5000: the registry evicts the oldest control "
        "connection at the limit), no storage faults, heartbeat-timeout cleanup = a close event",
        "SendCommandToClient prefers the node's own registry: a node that still holds an (unnoticed dead) connection of the "
        "client sends locally; clause C constrains only nodes without an open connection of the client",
    ],
}
