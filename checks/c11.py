SPEC = {
    "id": "C11",
    "lean_props": ["TunnoxModel.Props.C11"],
    "harness": {
        "pkg": "c11",
        "shims": {"session": "internal/protocol/session"},
        "runs": [{"args": [], "corpus": ""}],
    },
    "rule": "",
    "trusted_base": [],
    "assumptions": [],
}
