SPEC = {
    "id": "C11",
    "lean_props": ["TunnoxModel.Props.C11"],
    "harness": {
        "pkg": "c11",
        "shims": {"session": "internal/protocol/session", "command": "internal/command"},
        "runs": [{"args": [], "corpus": ""}],
    },
    "skip_model_prefix": ["x "],
    "strip_obs": r" dig \S+",
    "rule": ("one case = one command packet sent through the real SessionManager.HandlePacket (special cases of handleCommandPacket, "
             "then the real CommandExecutor/CommandRegistry with every handler of internal/command and internal/app/server) into a fresh "
             "real in-memory server stack (memory storage, built-in cloud control, connection-code/port-mapping services, HTTP domain "
             "repository, NotificationService, ServerAuthHandler) built from the world in the case string, and a second time with "
             "SenderId/ReceiverId/Token blanked; exhaustive matrix: every command type 0..130 x 7 connection identities, each reached through the REAL handshake path (handleHandshake -> "
             "ServerAuthHandler with sealed secrets: listen party, target party, stranger authenticated by a correct HMAC; refused "
             "handshake; never-handshaken; phase 1 only = challenge pending for client 1001; phase 2 answered wrongly), plus the "
             "configuration without executor (handleDefaultCommand) and the entry point ProcessCommand (predicate only) x claimed fields x request/response packet type x "
             "connection histories (several handshakes on ONE connection — re-authentication as another client, failed or pending "
             "attempts after a login, login after attempts — with read-only registry commands between the steps, next to an earlier "
             "or later login of the same client elsewhere) x "
             "named object (own / other party's / stranger's / empty / unknown id; codes: unused / marked used / really activated by a "
             "given client through ConnectionCodeService so that the mapping it created exists) x target client; claimed SenderId/ReceiverId/Token "
             "range over numbers, garbage AND things that exist in the world (`@c<i>` the connection id of another — live, "
             "authenticated — connection, `@m/@s/@k/@d` mapping ids, secret keys, codes, domain ids); plus random worlds (casts, owners, "
             "online sets, connections spread over two nodes); two-node matrix: two real SessionManagers (own client registry, executor, "
             "handlers) over shared storage joined by a BridgeManager on an in-memory broker: sender identity x claimed body "
             "target_client_id x where the mapping's real target is connected (same node / other node / nowhere) x bridge on/off; "
             "the second run of every case also blanks the body's target_client_id unless the command is a DNS forward or a "
             "client-to-client notification, and drops the extra identity-like body keys: cases marked `e <v> <keys>` add EVERY "
             "identity-like JSON key any struct of the server can decode (regenerated from the struct tags, Gen.c11.identityKeys; "
             "the driver rejects a stale key list) to the body with a foreign client id; `dig` = digest of every payload pushed to "
             "any connection and of every stored record created/changed (all fields; random ids, secrets and times removed), "
             "required equal between the two runs; concurrency: cases marked `y <j> <rounds>` send the same read-only command from two "
             "connections at once (12 goroutines each, up to 60 000 / 200 000 rounds) and judge every answer of both against the asking "
             "connection's own client (stress search, probabilistic); schedules: cases marked `z <j>` hold the handler (gated storage double) until the "
             "executor's RPC wait — shortened through RPCManager.SetTimeout — has timed out and a second command from connection j is "
             "in flight, then let it resume; read faults: cases marked `q <plan>` run over a fault-injecting wrapper of the real "
             "in-memory storage in which the i-th read of the named mapping's main record during the command fails transiently iff "
             "bit i of the plan is set — every plan over the first 3 (thorough: 5) reads x identity x whose mapping, compared with "
             "the model for MappingGet/MappingDelete/TrafficReport/SOCKS5 (single node) and judged by the predicate only (`x`) for "
             "the other commands; observation = return value, response class, objects disclosed (id/secret substring search in everything "
             "the sender received), semantic diff of mappings/codes/domains, command packets pushed to every fake control connection, "
             "connections closed; compared token-for-token with the model and judged by the theorem's predicate; distinct = distinct "
             "case strings"),
    "trusted_base": [
        "Lean 4.33 kernel; axioms propext, Classical.choice, Quot.sound only (audited per theorem on every run)",
        "extractor (extract/tables.go): the CommandType table, the command types compared in handleCommandPacket, the first argument "
        "of every NewBaseHandler call in internal/command and internal/app/server; 23 call skeletons (compared by decide)",
        "differential harness /verif/harness/c11 (fake PackageStreamer per connection; shim VerifAddConnection mirrors CreateConnection + "
        "RegisterControlConnection + UpdateControlConnectionAuth); identity checks inside handlers are tied by T3 only (not translated)",
        "encoding/json for the request bodies the harness builds; object disclosure detected by substring search of ids/secret keys",
    ],
    "assumptions": [
        "reply-class packets (DNSResolve/DNSQuery/HTTPProxyResponse with packet type CommandResp) are modelled with no request pending: "
        "that any connection may answer a pending forwarded request by guessing its command id is NOT covered (would need per-request "
        "binding of the answering connection; out of the model's scope)",
        "default DNS target (target_client_id <= 0) when the sender has active SOCKS mappings to several different targets: the "
        "implementation picks whichever Go's map iteration meets first; the model has a ghost `pick` (theorems quantify over it), the "
        "harness marks such cases `x` and judges them by the predicate only (counted as excluded-point in the distribution)",
        "storage faults: only transient failures of READS of the one mapping record the command names are injected and modelled "
        "(ghost `faults` schedule, universally quantified in the theorems); failing writes/deletes, faults on index lists or on code/"
        "domain records are not",
        "quota branches (10 active codes, 50 active mappings per client) and expiry of codes/mappings are not modelled; generated worlds stay below them",
        "cross-node: the SOCKS5 tunnel-open broadcast (BroadcastTunnelOpen -> every node's handleTunnelOpenBroadcast) is driven through a "
        "BridgeManager double over an in-memory hub (the broker itself is not the repo's); the cross-node DNS query runs over the REAL "
        "ConnectionStateStore, CrossNodePool and CrossNodeListener (loopback TCP) in `xn 1` worlds; model comparison there only for "
        "worlds with one single-step connection per client",
        "entry point ProcessCommand and read faults on commands other than MappingGet/Delete/TrafficReport/SOCKS5 are judged by the "
        "predicate only (x-cases), not compared with the model; see checks/c11_coverage.md for the clause/dimension/mechanism map",
        "SendNotifyToClient / NotifyClientAck handlers are registered by the harness although no production code registers them yet",
    ],
}
