SPEC = {
    "id": "C10",
    "lean_props": ["TunnoxModel.Props.C10", "TunnoxModel.Props.C10Ties"],
    "harness": {
        "pkg": "c10",
        "shims": {"session": "internal/protocol/session"},
        "runs": [
            {"args": ["-mode", "dec"], "corpus": "dec", "gomemlimit": "12GiB"},
            {"args": ["-mode", "rt"], "corpus": "rt"},
            {"args": ["-mode", "st"], "corpus": "st"},
            {"args": ["-mode", "fw"], "corpus": "fw"},
            {"args": ["-mode", "pl"], "corpus": "pl"},
            {"args": ["-mode", "ls"], "corpus": "ls"},
        ],
    },
    "strip_obs": r" alloc \d+",
    "rule": ("dec: byte strings (every truncation point and single cut of short valid streams, adversarial length fields "
             "around MaxFrameSize and 2^32, all 256 type bytes, byte flips at every header position, structure-aware "
             "mutations, random bytes) fed to the real ReadFrameFromReader through a chunk-controlled reader under recover + "
             "watchdog + per-call TotalAlloc delta; rt: frame sequences (all 256 types, payload sizes 0..3*64KiB+7) through the "
             "real WriteFrameToWriter and back; st: two real FrameStreams over a loopback TCP pair (optionally through a "
             "re-chunking proxy): every sequence of <= 3 events over {write, empty write, CloseWrite, Close, foreign data "
             "frame, foreign close frame, own unknown-type frame, own empty data frame}, write sizes k*64KiB+{-1,0,1} against "
             "read buffers below/at/above a frame, random scripts; fw: the real runBidirectionalForward between a TCP application connection and a FrameStream "
             "(upload, half-close, answer, close; sizes 0..100000); every st case carries the constructor/tracker dimension "
             "(NewFrameStream | NewFrameStreamWithTracker with a scripted double answering closed/active/unknown per foreign "
             "tunnel) and optionally creates the receiving stream only after residual frames are queued; pl: a stream on a "
             "connection obtained from the real NodeConnectionPool (Get, residual frames of the previous tunnel arrive, "
             "Release, Get) or from the top-level Pool (address from storage); st also: a reverse phase on the same two stream "
             "objects (request/response), the connection lost at every byte offset (cut), held read buffers / scribbled write "
             "buffers; fw also with traffic counters, LocalConnCloser, answer-first ordering; tm: TargetReady payload codec; "
             "non-trivial = stream cut at least once (dec/rt) or >= 2 "
             "events (st); distinct = distinct (events/stream prefix, sizes, chunking, read pattern)"),
    "trusted_base": [
        "Lean 4.33 kernel; axioms propext, Classical.choice, Quot.sound only (audited per theorem on every run)",
        "extractor /verif/extract: frame constants, call skeletons and the normalized text (Gen.Flow) of ReadFrameFromReader, "
        "WriteFrame, WriteFrameToWriter, TunnelIDFromString/ToString, isConnectionClosedError, FrameStream.Read/Write/CloseWrite/Close",
        "differential harness /verif/harness/c10; compiled Lean driver as model and as holds-oracle",
        "TCP (ordered, loss-free byte stream) and io.ReadFull; absence of Go panics and the allocation bound of the real "
        "decoder are observed by the harness run, not proved",
    ],
    "assumptions": [
        "WF: the 16-byte frame ids (TunnelIDFromString) of distinct tunnels sharing a connection differ -- violated by real "
        "tunnel ids, see known finding c10-id-truncation",
        "transport Read never returns (0, nil); a transport error other than a close (time-out) carries none of the "
        "'closed' markers of isConnectionClosedError",
        "FrameStream and runBidirectionalForward have no production caller in this tree (component-level guarantee); "
        "readMu/writeMu atomicity w.r.t. concurrent callers of the same stream is not modelled",
    ],
}
