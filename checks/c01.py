SPEC = {
    "id": "C01",
    "lean_props": ["TunnoxModel.Props.C01"],
    "harness": {
        "pkg": "c01",
        "shims": {"stream": "internal/stream", "adapter": "internal/protocol/adapter"},
        "runs": [{"args": ["-mode", "rt"], "corpus": "rt"}, {"args": ["-mode", "ws"], "corpus": "rtw"},
                 {"args": ["-mode", "cw"], "corpus": "cw"}, {"args": ["-mode", "xport"], "corpus": "rtx"}],
    },
    "rule": ("round-trip cases: packet sequences (all 64 base types x compression x body sizes incl. 0) written by the real "
             "WritePacket and read back by the real ReadPacket through a chunk-controlled reader; chunkings: every single "
             "cut position of short encodings, 1-byte reads, random partitions; a case is non-trivial when the stream is "
             "cut at least once; distinct = distinct (types, compression, body lengths, chunk sizes). WebSocket run: the "
             "same cases with the chunks sent as real WebSocket binary messages (gorilla, loopback) and read back through "
             "the repository's wsServerConn / wsClientConn under ReadPacket: message-per-write, one message per packet, "
             "everything in one message, single cuts, random partitions, several buffered tails per connection; body-length "
             "sweep (every length 0..4300, windows around one MSS / powers of two / multiples of 1 KiB, plain and compressed, "
             "each followed by a trailer packet); rate-limited writer (rtl); bodies of exactly the cap and cap-1, plain and "
             "compressed (rtcap: compared in the harness, judged by the conclusion of C01_main with the regenerated constant); "
             "QUIC and KCP run (xport): the repository's QuicAdapter / KcpAdapter listening and dialling over loopback UDP, "
             "the real writer on one end and the real reader on the other, both directions, bodies around the transports' "
             "segment and window sizes; the chunks are whatever quic-go / kcp-go deliver"),
    "trusted_base": [
        "Lean 4.33 kernel; axioms propext, Classical.choice, Quot.sound only (audited per theorem on every run)",
        "extractor /verif/extract (go/ast): constants and packet.Type predicates regenerated into Gen/*.lean",
        "differential harness /verif/harness/c01 + chunk reader; compiled Lean driver as model and as holds-oracle",
        "compress/gzip round trip and encoding/json round trip are parameters of the model (Codec.RT, jsonNorm)",
        "gorilla/websocket, quic-go and kcp-go are the real transports of the ws/xport runs: not modelled — the model quantifies over every chunking they could produce (and over the end of the stream arriving with the last bytes)",
    ],
    "assumptions": [
        "WF: base type < 0x40 (flag bits are set by the writer only), heartbeat carries no body, body and wire body <= MaxPacketBodySize, command bodies are canonical JSON of a CommandPacket",
        "transport Read never returns (0, nil) (io.Reader contract discourages it)",
        "a packet carrying the 0x80 (encrypted) flag is outside the round trip (the reader rejects it); for it the claim is alignment only: consumed exactly, following packets unread (holdsSeq, C01_rejected_aligned)",
        "concurrent callers: the model serialises whole packets in lock-acquisition order (theorem C01_concurrent_writers); that WritePacket/ReadPacket hold their lock across all transport calls is pinned by skeleton and driven by the gated-writer cases (`cw`); concurrent READERS are pinned by skeleton only",
    ],
}
