#!/usr/bin/env python3
"""usage: tools_seed_recheck.py [name-prefix…]
Re-applies every seeded change (seeded/<name>/patch.diff) to a scratch worktree of /repo HEAD and runs the check of its
property against it (VERIF_REPO), recording the outcome in seeded/<name>/meta.json under "recheck". One at a time."""
import json, os, subprocess, sys, glob, re
V = os.path.dirname(os.path.abspath(__file__))
pre = sys.argv[1:]
wt = "/tmp/seedrecheck"
if pre and pre[0] == "--wt":            # several instances side by side: give each its own scratch worktree
    wt, pre = pre[1], pre[2:]
head = subprocess.check_output(["git", "-C", "/repo", "rev-parse", "--short", "HEAD"]).decode().strip()
subprocess.run(["git", "-C", "/repo", "worktree", "remove", "--force", wt], stderr=subprocess.DEVNULL)
subprocess.check_call(["git", "-C", "/repo", "worktree", "add", "-q", "--detach", wt, "HEAD"])
try:
    for d in sorted(glob.glob(os.path.join(V, "seeded", "*"))):
        name = os.path.basename(d)
        if pre and not any(name.startswith(p) for p in pre):
            continue
        meta = json.load(open(os.path.join(d, "meta.json")))
        pid = meta["property"]
        if meta.get("obsolete"):
            meta["recheck"] = {"repo_head": head, "result": "obsolete (see note)"}
            json.dump(meta, open(os.path.join(d, "meta.json"), "w"), indent=1, ensure_ascii=False)
            print("%-55s obsolete" % name, flush=True)
            continue
        subprocess.run("git reset -q --hard && git clean -fdq", shell=True, cwd=wt)
        a = subprocess.run(["git", "apply", os.path.join(d, "patch.diff")], cwd=wt, stderr=subprocess.PIPE)
        if a.returncode != 0:
            a = subprocess.run(["git", "apply", "-3", os.path.join(d, "patch.diff")], cwd=wt, stderr=subprocess.PIPE)
        if a.returncode != 0:
            res = "patch-no-longer-applies"
        else:
            b = subprocess.run(["go", "build", "./..."], cwd=wt, env=dict(os.environ, GOFLAGS="-mod=mod", GOPROXY="off"), stderr=subprocess.PIPE)
            if b.returncode != 0:
                res = "patched-tree-does-not-build"
            else:
                # "checked_by": the properties whose checks are expected to see this change (default: its own);
                # the best outcome over them is recorded
                best, rank = None, {"caught (failing input)": 2, "half-detected (no-failing-input-found)": 1}
                for cp in meta.get("checked_by", [pid]):
                    p = subprocess.run([os.path.join(V, "check"), cp], cwd=V, env=dict(os.environ, VERIF_REPO=wt), stdout=subprocess.PIPE, stderr=subprocess.STDOUT)
                    out = p.stdout.decode("utf-8", "replace")
                    m = re.search(r"VIOLATION property=\S+ replay=\S+( no-failing-input-found)?", out)
                    r1 = "MISSED (exit %d)" % p.returncode if not m else ("half-detected (no-failing-input-found)" if m.group(1) else "caught (failing input)")
                    if cp != pid and m:
                        r1 += " by " + cp
                    if best is None or rank.get(r1.split(" by ")[0], 0) > rank.get(best.split(" by ")[0], 0):
                        best = r1
                res = best
        meta["recheck"] = {"repo_head": head, "result": res}
        json.dump(meta, open(os.path.join(d, "meta.json"), "w"), indent=1, ensure_ascii=False)
        print("%-55s %s" % (name, res), flush=True)
finally:
    subprocess.run(["git", "-C", "/repo", "worktree", "remove", "--force", wt], stderr=subprocess.DEVNULL)
    # restore the Gen modules for /repo itself
    subprocess.run([os.path.join(V, ".work/bin/extract"), "-repo", "/repo", "-specs", os.path.join(V, "extract/spec.d"), "-out", os.path.join(V, "lean/TunnoxModel/Gen")], stdout=subprocess.DEVNULL)
