#!/bin/bash
# usage: xcheck.sh <seed-name> <Cxx>…  : run other properties' checks against a seeded patch
name=$1; shift
wt=/tmp/xc-$$
git -C /repo worktree add -q --detach $wt HEAD
git -C $wt apply /verif/seeded/$name/patch.diff || { echo "apply failed"; git -C /repo worktree remove --force $wt; exit 1; }
for c in "$@"; do VERIF_REPO=$wt /verif/check $c 2>&1 | grep -E "^VIOLATION|^\[check\] C"; done
git -C /repo worktree remove --force $wt
