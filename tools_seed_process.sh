#!/bin/bash
# usage: tools_seed_process.sh <seed-dir-name e.g. c01c> <Seeded-Name>   -> confirm, run the property's check against it, print verdict
d=$1; name=$2
P=$(echo $d | cut -c1-3 | tr a-z A-Z)
cd /verif
python3 tools_seed_confirm.py /tmp/seed/$d $name 2>&1 | tail -1
VERIF_REPO=/tmp/seed/$d/repo ./check $P 2>&1 | grep -E "VIOLATION|\[check\] C" | cut -c1-200
git -C /repo worktree remove --force /tmp/seed/$d/repo 2>/dev/null
