#!/usr/bin/env python3
"""usage: tools_cover_anchors.py Cxx [--tier quick|thorough] [extra-file-substring…]
Diagnostic (not part of any verdict): runs ./check Cxx with a coverage-instrumented harness and lists, for every
anchor file of the property (properties.jsonl) plus the extra files named, the functions the harness never reached
and those it reached only partly.  Use it to find mechanisms of the property that no generator drives."""
import json, os, re, subprocess, sys, shutil
V = os.path.dirname(os.path.abspath(__file__))
pid = sys.argv[1].upper()
tier = "quick"
extra = []
args = sys.argv[2:]
while args:
    a = args.pop(0)
    if a == "--tier":
        tier = args.pop(0)
    else:
        extra.append(a)
prop = [json.loads(l) for l in open(os.path.join(V, "properties.jsonl")) if json.loads(l)["id"] == pid][0]
files = prop["anchors"]["files"] + extra
cov = os.path.join(V, ".work", "cover", pid)
shutil.rmtree(cov, ignore_errors=True)
os.makedirs(cov)
# `go build -cover` cannot read files that exist only in a -overlay: materialise the harness and shim files in a scratch
# worktree of the repository (removed at the end) and point the runner at it
src_repo = os.environ.get("VERIF_REPO", "/repo")
wt = "/tmp/cover-wt-%s" % pid
subprocess.run(["git", "-C", src_repo, "worktree", "remove", "--force", wt], stderr=subprocess.DEVNULL)
subprocess.check_call(["git", "-C", src_repo, "worktree", "add", "-q", "--detach", wt, "HEAD"])
import importlib.util
sp = importlib.util.spec_from_file_location("spec", os.path.join(V, "checks", pid.lower() + ".py"))
mod = importlib.util.module_from_spec(sp); sp.loader.exec_module(mod)
hs = [mod.SPEC["harness"]] + mod.SPEC.get("extra_harness", [])
def cp(src, dst):
    os.makedirs(os.path.join(wt, dst), exist_ok=True)
    for f in os.listdir(src):
        if f.endswith(".go"):
            shutil.copy(os.path.join(src, f), os.path.join(wt, dst, f))
for h in hs:
    cp(os.path.join(V, "harness", "common"), "internal/verifharness/common")
    cp(os.path.join(V, "harness", h["pkg"]), "internal/verifharness/" + h["pkg"])
    for shim, dst in h.get("shims", {}).items():
        cp(os.path.join(V, "harness", "shims", shim), dst)
env = dict(os.environ, VERIF_COVER=cov, VERIF_REPO=wt)
p = subprocess.run([os.path.join(V, "check"), pid, "--tier", tier], cwd=V, env=env, stdout=subprocess.PIPE, stderr=subprocess.STDOUT)
print(p.stdout.decode("utf-8", "replace").strip().split("\n")[-1])
out = subprocess.run(["go", "tool", "covdata", "func", "-i=" + cov], cwd=env["VERIF_REPO"], stdout=subprocess.PIPE, stderr=subprocess.STDOUT,
                     env=dict(os.environ, GOFLAGS="-mod=mod", GOPROXY="off")).stdout.decode("utf-8", "replace")
open(os.path.join(cov, "func.txt"), "w").write(out)
rows = []
for l in out.split("\n"):
    m = re.match(r"(\S+):(\d+):\s+(\S+)\s+([\d.]+)%", l)
    if m and any(f in m.group(1) for f in files):
        rows.append((m.group(1).replace("tunnox-core/", ""), int(m.group(2)), m.group(3), float(m.group(4))))
for title, pred in (("NEVER REACHED", lambda c: c == 0.0), ("PARTLY REACHED (<70%)", lambda c: 0.0 < c < 70.0)):
    print("\n== %s ==" % title)
    for f, ln, fn, c in sorted(rows):
        if pred(c):
            print("%-70s %-40s %5.1f%%" % ("%s:%d" % (f, ln), fn, c))
print("\n(full table: %s)" % os.path.join(cov, "func.txt"))
subprocess.run(["git", "-C", src_repo, "worktree", "remove", "--force", wt], stderr=subprocess.DEVNULL)
subprocess.run([os.path.join(V, ".work/bin/extract"), "-repo", "/repo", "-specs", os.path.join(V, "extract/spec.d"), "-out", os.path.join(V, "lean/TunnoxModel/Gen")], stdout=subprocess.DEVNULL)
