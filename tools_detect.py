#!/usr/bin/env python3
"""usage: tools_detect.py <seed-name> <detection text> [round]  -> records the first-run verdict in seeded/<name>/meta.json"""
import json,sys
p=f"/verif/seeded/{sys.argv[1]}/meta.json"
m=json.load(open(p)); m["detection"]=sys.argv[2]
if len(sys.argv)>3: m["round"]=int(sys.argv[3])
json.dump(m,open(p,"w"),indent=1,ensure_ascii=False)
